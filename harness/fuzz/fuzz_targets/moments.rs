#![no_main]
//! libFuzzer target "moments": bytes -> structured case (avg_verif::fuzzdec) -> the same
//! oracle functions the proptest checks use. Panics of the code under test that the
//! oracles expect (catch_unwind) must not abort the process, so the harness's own
//! silent panic hook replaces libfuzzer-sys's aborting hook; a property failure
//! prints its message and aborts (=> crash artifact).
use libfuzzer_sys::fuzz_target;
use std::sync::Once;
static INIT: Once = Once::new();
fuzz_target!(|data: &[u8]| {
    INIT.call_once(avg_verif::engine::install_panic_hook);
    if let Some(f) = avg_verif::fuzzdec::moments(data, avg_verif::fuzzdec::known_sigs()) {
        eprintln!("PROPERTY {} check {} [{}]: {}", f.property, f.check, f.fail.sig, f.fail.msg);
        std::process::abort();
    }
});
