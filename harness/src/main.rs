#![allow(dead_code, unused_imports)]
#![cfg_attr(feature = "nightly", feature(generic_const_exprs))]
#![cfg_attr(feature = "nightly", allow(incomplete_features))]
//! `check <ID> [--tier quick|thorough] [--seed N] | check <ID> --replay <file> | check selftest`
mod engine;
mod est;
mod exact;
mod gen;
mod hist;
mod oracle;
mod p2ref;
mod props;
mod types;

use engine::*;

average::define_histogram!(h1, 1);
average::define_histogram!(h2, 2);
average::define_histogram!(h3, 3);
average::define_histogram!(h4, 4);
average::define_histogram!(h10, 10);
average::define_histogram!(h100, 100);
use std::path::PathBuf;

fn usage() -> ! {
    eprintln!("usage: check <C01..C20> [--tier quick|thorough] [--seed N] [--root DIR]\n       check <ID> --replay <file>\n       check selftest");
    std::process::exit(2);
}

fn main() {
    let args: Vec<String> = std::env::args().skip(1).collect();
    if args.is_empty() {
        usage();
    }
    install_panic_hook();
    if args[0] == "selftest" {
        match oracle::selftest() {
            Ok(()) => {
                println!("oracle selftest ok");
                std::process::exit(0)
            }
            Err(e) => {
                eprintln!("{}", e);
                std::process::exit(2)
            }
        }
    }
    let id = args[0].to_uppercase();
    let mut tier = match std::env::var("VERIF_TIER").as_deref() {
        Ok("thorough") => Tier::Thorough,
        _ => Tier::Quick,
    };
    let mut seed: u64 = std::env::var("VERIF_SEED").ok().and_then(|s| s.trim().parse::<i128>().ok()).map(|v| v as u64).unwrap_or(0);
    let mut root = PathBuf::from(std::env::var("VERIF_ROOT").unwrap_or_else(|_| "/verif".into()));
    let mut replay: Option<String> = None;
    let mut i = 1;
    while i < args.len() {
        match args[i].as_str() {
            "--tier" => {
                i += 1;
                tier = match args.get(i).map(|s| s.as_str()) {
                    Some("quick") => Tier::Quick,
                    Some("thorough") => Tier::Thorough,
                    _ => usage(),
                };
            }
            "quick" => tier = Tier::Quick,
            "thorough" => tier = Tier::Thorough,
            "--seed" => {
                i += 1;
                seed = args.get(i).and_then(|s| s.parse::<i128>().ok()).map(|v| v as u64).unwrap_or_else(|| usage());
            }
            "--root" => {
                i += 1;
                root = PathBuf::from(args.get(i).cloned().unwrap_or_else(|| usage()));
            }
            "--replay" => {
                i += 1;
                replay = Some(args.get(i).cloned().unwrap_or_else(|| usage()));
            }
            _ => usage(),
        }
        i += 1;
    }
    let id_static: &'static str = Box::leak(id.clone().into_boxed_str());
    if let Some(path) = replay {
        let text = match std::fs::read_to_string(&path) {
            Ok(t) => t,
            Err(e) => {
                eprintln!("cannot read {}: {}", path, e);
                std::process::exit(2)
            }
        };
        let doc: serde_json::Value = match serde_json::from_str(&text) {
            Ok(d) => d,
            Err(e) => {
                eprintln!("cannot parse {}: {}", path, e);
                std::process::exit(2)
            }
        };
        let check = doc["check"].as_str().unwrap_or("").to_string();
        match props::replay(&id, &check, &doc["case"]) {
            None => {
                eprintln!("unknown property/check {}/{}", id, check);
                std::process::exit(2)
            }
            Some(Ok(())) => {
                println!("replay {}: property {} held on this case (check {})", path, id, check);
                std::process::exit(0)
            }
            Some(Err(m)) => {
                println!("VIOLATION property={} replay={}", id, path);
                println!("  check={} :: {}", check, m);
                std::process::exit(1)
            }
        }
    }
    let cx = Ctx::new(id_static, tier, seed, root);
    if !props::run(&id, &cx) {
        eprintln!("unknown property {}", id);
        std::process::exit(2);
    }
    std::process::exit(cx.finish());
}
