//! `check <ID> [--tier quick|thorough] [--seed N] | check <ID> --replay <file> | check selftest`
#![allow(dead_code, unused_imports)]
use avg_verif::engine::*;
use avg_verif::{oracle, props};
use std::path::PathBuf;

fn usage() -> ! {
    eprintln!("usage: check <C01..C20> [--tier quick|thorough] [--seed N] [--root DIR]\n       check <ID> --replay <file>\n       check selftest");
    std::process::exit(2);
}

fn main() {
    let args: Vec<String> = std::env::args().skip(1).collect();
    if args.is_empty() {
        usage();
    }
    install_panic_hook();
    if args[0] == "selftest" {
        let root = PathBuf::from(std::env::var("VERIF_ROOT").unwrap_or_else(|_| "/verif".into()));
        match oracle::selftest().and_then(|_| oracle::selftest_table(&root.join("tools/oracle_table.json"))) {
            Ok(n) => {
                println!("oracle selftest ok ({} exact values cross-checked against Python fractions to 2^-90)", n);
                std::process::exit(0)
            }
            Err(e) => {
                eprintln!("{}", e);
                std::process::exit(2)
            }
        }
    }
    if args[0] == "fuzz-replay" {
        // check fuzz-replay <target> <artifact file> [--root DIR]: decode a libFuzzer input, judge it strictly,
        // and on failure write a replay file and print the VIOLATION line
        let (target, file) = match (args.get(1), args.get(2)) {
            (Some(t), Some(f)) => (t.clone(), f.clone()),
            _ => usage(),
        };
        let root = PathBuf::from(args.iter().position(|a| a == "--root").and_then(|i| args.get(i + 1).cloned()).unwrap_or_else(|| std::env::var("VERIF_ROOT").unwrap_or_else(|_| "/verif".into())));
        let data = match std::fs::read(&file) {
            Ok(d) => d,
            Err(e) => {
                eprintln!("cannot read {}: {}", file, e);
                std::process::exit(2)
            }
        };
        // known findings are tolerated here exactly as in the checks themselves
        std::env::set_var("VERIF_ROOT", &root);
        match avg_verif::fuzzdec::run_target(&target, &data, avg_verif::fuzzdec::known_sigs()) {
            None => {
                println!("fuzz-replay {}: no property failed on this input", file);
                std::process::exit(0)
            }
            Some(f) => {
                let dir = root.join("replays").join(f.property);
                let _ = std::fs::create_dir_all(&dir);
                let mut h = Fp::new();
                h.s(&String::from_utf8_lossy(&data));
                let path = dir.join(format!("{}-fuzz-{:016x}.json", f.check, h.finish()));
                let doc = serde_json::json!({"property": f.property, "check": f.check, "signature": f.fail.sig, "message": f.fail.msg,
                    "found_by": format!("libFuzzer target {} (artifact {})", target, file), "case": f.case});
                let _ = std::fs::write(&path, serde_json::to_string_pretty(&doc).unwrap());
                println!("VIOLATION property={} replay={}", f.property, path.display());
                println!("  check={} signature={} :: {}", f.check, f.fail.sig, f.fail.msg);
                std::process::exit(1)
            }
        }
    }
    let id = args[0].to_uppercase();
    let mut tier = match std::env::var("VERIF_TIER").as_deref() {
        Ok("thorough") => Tier::Thorough,
        _ => Tier::Quick,
    };
    let mut seed: u64 = std::env::var("VERIF_SEED").ok().and_then(|s| s.trim().parse::<i128>().ok()).map(|v| v as u64).unwrap_or(0);
    let mut root = PathBuf::from(std::env::var("VERIF_ROOT").unwrap_or_else(|_| "/verif".into()));
    let mut replay: Option<String> = None;
    let mut write_evidence = true;
    let mut i = 1;
    while i < args.len() {
        match args[i].as_str() {
            "--tier" => {
                i += 1;
                tier = match args.get(i).map(|s| s.as_str()) {
                    Some("quick") => Tier::Quick,
                    Some("thorough") => Tier::Thorough,
                    _ => usage(),
                };
            }
            "quick" => tier = Tier::Quick,
            "thorough" => tier = Tier::Thorough,
            "--seed" => {
                i += 1;
                seed = args.get(i).and_then(|s| s.parse::<i128>().ok()).map(|v| v as u64).unwrap_or_else(|| usage());
            }
            "--root" => {
                i += 1;
                root = PathBuf::from(args.get(i).cloned().unwrap_or_else(|| usage()));
            }
            "--no-evidence" => write_evidence = false,
            "--replay" => {
                i += 1;
                replay = Some(args.get(i).cloned().unwrap_or_else(|| usage()));
            }
            _ => usage(),
        }
        i += 1;
    }
    let id_static: &'static str = Box::leak(id.clone().into_boxed_str());
    if let Some(path) = replay {
        let text = match std::fs::read_to_string(&path) {
            Ok(t) => t,
            Err(e) => {
                eprintln!("cannot read {}: {}", path, e);
                std::process::exit(2)
            }
        };
        let doc: serde_json::Value = match serde_json::from_str(&text) {
            Ok(d) => d,
            Err(e) => {
                eprintln!("cannot parse {}: {}", path, e);
                std::process::exit(2)
            }
        };
        let check = doc["check"].as_str().unwrap_or("").to_string();
        match props::replay(&id, &check, &doc["case"]) {
            None => {
                eprintln!("unknown property/check {}/{}", id, check);
                std::process::exit(2)
            }
            Some(Ok(())) => {
                println!("replay {}: property {} held on this case (check {})", path, id, check);
                std::process::exit(0)
            }
            Some(Err(m)) => {
                println!("VIOLATION property={} replay={}", id, path);
                println!("  check={} :: {}", check, m);
                std::process::exit(1)
            }
        }
    }
    let mut cx = Ctx::new(id_static, tier, seed, root);
    cx.write_evidence = write_evidence;
    if !props::run(&id, &cx) {
        eprintln!("unknown property {}", id);
        std::process::exit(2);
    }
    std::process::exit(cx.finish());
}
