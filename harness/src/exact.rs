//! Minimal exact arithmetic: signed big integers and an extended-exponent
//! double-double (`Xf`) used only for the final ratio / root of exact integers.
use std::cmp::Ordering;

#[derive(Clone, Debug, PartialEq, Eq)]
pub struct Big {
    pub neg: bool,
    pub mag: Vec<u64>, // little endian, no trailing zeros; empty = 0
}

fn trim(v: &mut Vec<u64>) {
    while let Some(&0) = v.last() {
        v.pop();
    }
}
fn cmp_mag(a: &[u64], b: &[u64]) -> Ordering {
    if a.len() != b.len() {
        return a.len().cmp(&b.len());
    }
    for i in (0..a.len()).rev() {
        if a[i] != b[i] {
            return a[i].cmp(&b[i]);
        }
    }
    Ordering::Equal
}
fn add_mag(a: &[u64], b: &[u64]) -> Vec<u64> {
    let (a, b) = if a.len() >= b.len() { (a, b) } else { (b, a) };
    let mut r = Vec::with_capacity(a.len() + 1);
    let mut c = 0u128;
    for i in 0..a.len() {
        let s = a[i] as u128 + if i < b.len() { b[i] as u128 } else { 0 } + c;
        r.push(s as u64);
        c = s >> 64;
    }
    if c > 0 {
        r.push(c as u64);
    }
    r
}
// a >= b
fn sub_mag(a: &[u64], b: &[u64]) -> Vec<u64> {
    let mut r = Vec::with_capacity(a.len());
    let mut borrow = 0i128;
    for i in 0..a.len() {
        let mut s = a[i] as i128 - if i < b.len() { b[i] as i128 } else { 0 } - borrow;
        if s < 0 {
            s += 1i128 << 64;
            borrow = 1;
        } else {
            borrow = 0;
        }
        r.push(s as u64);
    }
    debug_assert_eq!(borrow, 0);
    trim(&mut r);
    r
}

impl Big {
    pub fn zero() -> Big {
        Big { neg: false, mag: vec![] }
    }
    pub fn from_i128(v: i128) -> Big {
        let neg = v < 0;
        let m = v.unsigned_abs();
        let mut mag = vec![m as u64, (m >> 64) as u64];
        trim(&mut mag);
        Big { neg, mag }
    }
    pub fn from_u64(v: u64) -> Big {
        Big::from_i128(v as i128)
    }
    pub fn is_zero(&self) -> bool {
        self.mag.is_empty()
    }
    pub fn bits(&self) -> u64 {
        match self.mag.last() {
            None => 0,
            Some(&t) => (self.mag.len() as u64 - 1) * 64 + (64 - t.leading_zeros() as u64),
        }
    }
    pub fn neg(&self) -> Big {
        Big { neg: !self.neg && !self.is_zero(), mag: self.mag.clone() }
    }
    pub fn abs(&self) -> Big {
        Big { neg: false, mag: self.mag.clone() }
    }
    pub fn shl(&self, k: u64) -> Big {
        if self.is_zero() {
            return Big::zero();
        }
        let limbs = (k / 64) as usize;
        let bits = (k % 64) as u32;
        let mut mag = vec![0u64; limbs];
        if bits == 0 {
            mag.extend_from_slice(&self.mag);
        } else {
            let mut carry = 0u64;
            for &l in &self.mag {
                mag.push((l << bits) | carry);
                carry = l >> (64 - bits);
            }
            if carry > 0 {
                mag.push(carry);
            }
        }
        Big { neg: self.neg, mag }
    }
    pub fn add(&self, o: &Big) -> Big {
        if self.neg == o.neg {
            let mag = add_mag(&self.mag, &o.mag);
            return Big { neg: self.neg && !mag.is_empty(), mag };
        }
        match cmp_mag(&self.mag, &o.mag) {
            Ordering::Equal => Big::zero(),
            Ordering::Greater => Big { neg: self.neg, mag: sub_mag(&self.mag, &o.mag) },
            Ordering::Less => Big { neg: o.neg, mag: sub_mag(&o.mag, &self.mag) },
        }
    }
    pub fn sub(&self, o: &Big) -> Big {
        self.add(&o.neg())
    }
    pub fn mul(&self, o: &Big) -> Big {
        if self.is_zero() || o.is_zero() {
            return Big::zero();
        }
        let mut r = vec![0u64; self.mag.len() + o.mag.len()];
        for (i, &a) in self.mag.iter().enumerate() {
            let mut carry = 0u128;
            for (j, &b) in o.mag.iter().enumerate() {
                let t = a as u128 * b as u128 + r[i + j] as u128 + carry;
                r[i + j] = t as u64;
                carry = t >> 64;
            }
            let mut k = i + o.mag.len();
            while carry > 0 {
                let t = r[k] as u128 + carry;
                r[k] = t as u64;
                carry = t >> 64;
                k += 1;
            }
        }
        trim(&mut r);
        Big { neg: self.neg != o.neg, mag: r }
    }
    pub fn mul_u64(&self, v: u64) -> Big {
        self.mul(&Big::from_u64(v))
    }
    pub fn pow(&self, p: u32) -> Big {
        let mut r = Big::from_u64(1);
        for _ in 0..p {
            r = r.mul(self);
        }
        r
    }
    pub fn cmp(&self, o: &Big) -> Ordering {
        match (self.neg, o.neg) {
            (false, true) => Ordering::Greater,
            (true, false) => Ordering::Less,
            (false, false) => cmp_mag(&self.mag, &o.mag),
            (true, true) => cmp_mag(&o.mag, &self.mag),
        }
    }
    /// Exact integer value m * 2^e of a finite f64: returns (m, e).
    pub fn decompose(x: f64) -> (i64, i64) {
        assert!(x.is_finite());
        let b = x.to_bits();
        let sign = if b >> 63 == 1 { -1i64 } else { 1 };
        let ex = ((b >> 52) & 0x7ff) as i64;
        let fr = (b & ((1u64 << 52) - 1)) as i64;
        if ex == 0 {
            (sign * fr, -1074)
        } else {
            (sign * (fr | (1i64 << 52)), ex - 1075)
        }
    }
    pub fn shr(&self, k: u64) -> Big {
        let limbs = (k / 64) as usize;
        let bits = (k % 64) as u32;
        if limbs >= self.mag.len() {
            return Big::zero();
        }
        let src = &self.mag[limbs..];
        let mut mag = Vec::with_capacity(src.len());
        for i in 0..src.len() {
            let lo = src[i] >> bits;
            let hi = if bits > 0 && i + 1 < src.len() { src[i + 1] << (64 - bits) } else { 0 };
            mag.push(lo | hi);
        }
        trim(&mut mag);
        Big { neg: self.neg && !mag.is_empty(), mag }
    }
    /// Top bits as extended-exponent double-double (truncation error < 2^-105 relative).
    pub fn to_xf(&self) -> Xf {
        if self.is_zero() {
            return Xf::zero();
        }
        let bits = self.bits();
        let t = if bits > 128 { self.shr(bits - 128) } else { self.shl(128 - bits) };
        debug_assert_eq!(t.bits(), 128);
        let lo_part = t.mag[0];
        let hi_part = t.mag[1];
        // three exactly representable pieces
        let a = (hi_part >> 11) as f64 * 2f64.powi(75); // top 53 bits
        let b = ((((hi_part & 0x7ff) as u128) << 42) | ((lo_part >> 22) as u128)) as u64 as f64 * 2f64.powi(22); // next 53 bits
        let c = (lo_part & ((1 << 22) - 1)) as f64; // last 22 bits
        let mut r = Xf::from_f64(a).add(&Xf::from_f64(b)).add(&Xf::from_f64(c));
        r.e += bits as i64 - 128;
        if self.neg {
            r = r.neg();
        }
        r
    }
}

/// value = (hi + lo) * 2^e, hi normalised to [0.5,1) in magnitude (or 0).
#[derive(Clone, Copy, Debug)]
pub struct Xf {
    pub hi: f64,
    pub lo: f64,
    pub e: i64,
}

fn two_sum(a: f64, b: f64) -> (f64, f64) {
    let s = a + b;
    let bb = s - a;
    let e = (a - (s - bb)) + (b - bb);
    (s, e)
}
fn two_prod(a: f64, b: f64) -> (f64, f64) {
    let p = a * b;
    let e = a.mul_add(b, -p);
    (p, e)
}
fn frexp(x: f64) -> (f64, i64) {
    if x == 0.0 {
        return (0.0, 0);
    }
    let b = x.to_bits();
    let ex = ((b >> 52) & 0x7ff) as i64;
    if ex == 0 {
        let (m, e) = frexp(x * 2f64.powi(64));
        return (m, e - 64);
    }
    let m = f64::from_bits((b & !(0x7ffu64 << 52)) | (1022u64 << 52));
    (m, ex - 1022)
}
fn ldexp(x: f64, e: i64) -> f64 {
    // careful two-step scaling
    let mut x = x;
    let mut e = e;
    while e > 1000 {
        x *= 2f64.powi(1000);
        e -= 1000;
        if x.is_infinite() { return x; }
    }
    while e < -1000 {
        x *= 2f64.powi(-1000);
        e += 1000;
        if x == 0.0 { return x; }
    }
    x * 2f64.powi(e as i32)
}

impl Xf {
    pub fn zero() -> Xf {
        Xf { hi: 0.0, lo: 0.0, e: 0 }
    }
    pub fn from_f64(x: f64) -> Xf {
        assert!(x.is_finite());
        let (m, e) = frexp(x);
        Xf { hi: m, lo: 0.0, e }
    }
    fn norm(hi: f64, lo: f64, e: i64) -> Xf {
        let (s, t) = two_sum(hi, lo);
        if s == 0.0 {
            return Xf::zero();
        }
        let (m, de) = frexp(s);
        let sc = ldexp(1.0, -de);
        Xf { hi: m, lo: t * sc, e: e + de }
    }
    pub fn is_zero(&self) -> bool {
        self.hi == 0.0
    }
    pub fn neg(&self) -> Xf {
        Xf { hi: -self.hi, lo: -self.lo, e: self.e }
    }
    pub fn abs(&self) -> Xf {
        if self.hi < 0.0 { self.neg() } else { *self }
    }
    pub fn add(&self, o: &Xf) -> Xf {
        if self.is_zero() { return *o; }
        if o.is_zero() { return *self; }
        let (a, b) = if self.e >= o.e { (self, o) } else { (o, self) };
        let d = a.e - b.e;
        if d > 250 {
            return *a;
        }
        let sc = ldexp(1.0, -d);
        let (bh, bl) = (b.hi * sc, b.lo * sc);
        let (s, e1) = two_sum(a.hi, bh);
        let e2 = e1 + (a.lo + bl);
        Xf::norm(s, e2, a.e)
    }
    pub fn sub(&self, o: &Xf) -> Xf {
        self.add(&o.neg())
    }
    pub fn mul(&self, o: &Xf) -> Xf {
        if self.is_zero() || o.is_zero() { return Xf::zero(); }
        let (p, e1) = two_prod(self.hi, o.hi);
        let e2 = e1 + (self.hi * o.lo + self.lo * o.hi);
        Xf::norm(p, e2, self.e + o.e)
    }
    pub fn div(&self, o: &Xf) -> Xf {
        assert!(!o.is_zero());
        if self.is_zero() { return Xf::zero(); }
        let q1 = self.hi / o.hi;
        // r = self - q1*o
        let q1x = Xf::norm(q1, 0.0, 0);
        let mut me = *self; me.e = 0;
        let mut oo = *o; oo.e = 0;
        let r = me.sub(&q1x.mul(&oo));
        let q2 = r.to_f64() / o.hi;
        let q2x = Xf::from_f64(q2);
        let r2 = r.sub(&q2x.mul(&oo));
        let q3 = r2.to_f64() / o.hi;
        let q = q1x.add(&q2x).add(&Xf::from_f64(q3));
        Xf { hi: q.hi, lo: q.lo, e: q.e + self.e - o.e }
    }
    pub fn sqrt(&self) -> Xf {
        assert!(self.hi >= 0.0);
        if self.is_zero() { return Xf::zero(); }
        // make exponent even
        let (mut m, mut e) = (*self, self.e);
        if e % 2 != 0 {
            m.hi *= 2.0; m.lo *= 2.0; e -= 1;
        }
        m.e = 0;
        let s0 = m.hi.sqrt();
        let s0x = Xf::from_f64(s0);
        // Newton: s = s0 + (m - s0^2)/(2 s0)
        let r = m.sub(&s0x.mul(&s0x));
        let corr = r.to_f64() / (2.0 * s0);
        let s1 = s0x.add(&Xf::from_f64(corr));
        let r1 = m.sub(&s1.mul(&s1));
        let corr1 = r1.to_f64() / (2.0 * s0);
        let s2 = s1.add(&Xf::from_f64(corr1));
        Xf { hi: s2.hi, lo: s2.lo, e: s2.e + e / 2 }
    }
    pub fn powi(&self, p: u32) -> Xf {
        let mut r = Xf::from_f64(1.0);
        for _ in 0..p { r = r.mul(self); }
        r
    }
    pub fn scale2(&self, k: i64) -> Xf {
        Xf { hi: self.hi, lo: self.lo, e: if self.is_zero() { 0 } else { self.e + k } }
    }
    pub fn to_f64(&self) -> f64 {
        ldexp(self.hi + self.lo, self.e)
    }
    pub fn from_u64(v: u64) -> Xf {
        Big::from_u64(v).to_xf()
    }
    pub fn cmp_abs(&self, o: &Xf) -> Ordering {
        let d = self.abs().sub(&o.abs());
        if d.hi > 0.0 { Ordering::Greater } else if d.hi < 0.0 { Ordering::Less } else { Ordering::Equal }
    }
}
