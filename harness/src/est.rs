//! One trait over *every* estimator type (one- and two-argument, mergeable or
//! not, histograms included) for the history-style checks C11, C18, C20.
use crate::hist::Hist;
use crate::types::*;
use average::{Covariance, Estimate, Kurtosis, Max, Mean, Merge, Min, Moments4, Quantile, Skewness, Variance, WeightedMean, WeightedMeanWithError};

#[derive(Clone, Copy, PartialEq, Eq, Debug)]
pub enum Kind {
    /// one f64 per observation
    Uni,
    /// (value, weight >= 0)
    Weighted,
    /// (x, y)
    Xy,
    /// histogram: one f64 per observation, may be rejected
    Histo,
}

pub trait Est: Clone {
    /// the public Debug representation (hidden state is visible here)
    fn dbg(&self) -> String;
    const NAME: &'static str;
    const KIND: Kind;
    const HAS_MERGE: bool = true;
    const HAS_COLLECT: bool = true;
    const HAS_EXTEND: bool = true;
    fn new_() -> Self;
    fn default_() -> Self;
    fn add2(&mut self, x: f64, y: f64);
    fn merge_(&mut self, o: &Self);
    fn len_(&self) -> Option<u64>;
    fn is_empty_(&self) -> Option<bool>;
    fn snap(&self) -> Snapshot;
    fn to_json(&self) -> Result<String, String>;
    fn from_json(s: &str) -> Result<Self, String>;
    /// second lossless format: the serde_json::Value tree (f64 stored exactly, no text)
    fn to_value(&self) -> Result<serde_json::Value, String>;
    fn from_value(v: serde_json::Value) -> Result<Self, String>;
    fn collect_val(v: &[(f64, f64)]) -> Self;
    fn collect_ref(v: &[(f64, f64)]) -> Self;
    fn extend_val_(&mut self, v: &[(f64, f64)]);
    fn extend_ref_(&mut self, v: &[(f64, f64)]);
    /// ingestion through iterators with unknown length (size_hint lower bound 0)
    fn extend_val_u(&mut self, v: &[(f64, f64)]) {
        self.extend_val_(v)
    }
    fn extend_ref_u(&mut self, v: &[(f64, f64)]) {
        self.extend_ref_(v)
    }
    fn collect_val_u(v: &[(f64, f64)]) -> Self {
        Self::collect_val(v)
    }
    fn collect_ref_u(v: &[(f64, f64)]) -> Self {
        Self::collect_ref(v)
    }
    fn estimate_pair_(&self) -> Option<(f64, f64)> {
        None
    }
}

macro_rules! est_uni {
    ($T:ty) => {
        impl Est for $T {
            const NAME: &'static str = <$T as Uni>::NAME;
            const KIND: Kind = Kind::Uni;
            const HAS_EXTEND: bool = <$T as Uni>::HAS_EXTEND;
            fn new_() -> Self {
                <$T as Uni>::new()
            }
            fn default_() -> Self {
                <$T as Uni>::default_()
            }
            fn add2(&mut self, x: f64, _: f64) {
                Uni::add(self, x)
            }
            fn merge_(&mut self, o: &Self) {
                Merge::merge(self, o)
            }
            fn len_(&self) -> Option<u64> {
                Uni::len(self)
            }
            fn is_empty_(&self) -> Option<bool> {
                Uni::is_empty(self)
            }
            fn snap(&self) -> Snapshot {
                Uni::snapshot(self)
            }
            fn dbg(&self) -> String {
                format!("{:?}", self)
            }
            fn to_json(&self) -> Result<String, String> {
                serde_json::to_string(self).map_err(|e| e.to_string())
            }
            fn from_json(s: &str) -> Result<Self, String> {
                serde_json::from_str(s).map_err(|e| e.to_string())
            }
            fn to_value(&self) -> Result<serde_json::Value, String> {
                serde_json::to_value(self).map_err(|e| e.to_string())
            }
            fn from_value(v: serde_json::Value) -> Result<Self, String> {
                serde_json::from_value(v).map_err(|e| e.to_string())
            }
            fn collect_val(v: &[(f64, f64)]) -> Self {
                v.iter().map(|p| p.0).collect()
            }
            fn collect_ref(v: &[(f64, f64)]) -> Self {
                let xs: Vec<f64> = v.iter().map(|p| p.0).collect();
                xs.iter().collect()
            }
            fn extend_val_(&mut self, v: &[(f64, f64)]) {
                let xs: Vec<f64> = v.iter().map(|p| p.0).collect();
                Uni::extend_val(self, &xs)
            }
            fn extend_ref_(&mut self, v: &[(f64, f64)]) {
                let xs: Vec<f64> = v.iter().map(|p| p.0).collect();
                Uni::extend_ref(self, &xs)
            }
            fn extend_val_u(&mut self, v: &[(f64, f64)]) {
                let xs: Vec<f64> = v.iter().map(|p| p.0).collect();
                Uni::extend_val_unsized(self, &xs)
            }
            fn extend_ref_u(&mut self, v: &[(f64, f64)]) {
                let xs: Vec<f64> = v.iter().map(|p| p.0).collect();
                Uni::extend_ref_unsized(self, &xs)
            }
            fn collect_val_u(v: &[(f64, f64)]) -> Self {
                let xs: Vec<f64> = v.iter().map(|p| p.0).collect();
                <$T as Uni>::collect_val_unsized(&xs)
            }
            fn collect_ref_u(v: &[(f64, f64)]) -> Self {
                let xs: Vec<f64> = v.iter().map(|p| p.0).collect();
                <$T as Uni>::collect_ref_unsized(&xs)
            }
            fn estimate_pair_(&self) -> Option<(f64, f64)> {
                Uni::estimate_pair(self)
            }
        }
    };
}
est_uni!(Mean);
est_uni!(Variance);
est_uni!(Skewness);
est_uni!(Kurtosis);
est_uni!(Moments4);
est_uni!(M5);
est_uni!(M6);
est_uni!(M8);
est_uni!(M10);
est_uni!(Min);
est_uni!(Max);

macro_rules! est_pair {
    ($T:ty, $kind:expr) => {
        impl Est for $T {
            const NAME: &'static str = <$T as Pair>::NAME;
            const KIND: Kind = $kind;
            fn new_() -> Self {
                <$T as Pair>::new()
            }
            fn default_() -> Self {
                <$T as Pair>::default_()
            }
            fn add2(&mut self, x: f64, y: f64) {
                Pair::add(self, x, y)
            }
            fn merge_(&mut self, o: &Self) {
                Merge::merge(self, o)
            }
            fn len_(&self) -> Option<u64> {
                Pair::len(self)
            }
            fn is_empty_(&self) -> Option<bool> {
                Pair::is_empty(self)
            }
            fn snap(&self) -> Snapshot {
                Pair::snapshot(self)
            }
            fn dbg(&self) -> String {
                format!("{:?}", self)
            }
            fn to_json(&self) -> Result<String, String> {
                serde_json::to_string(self).map_err(|e| e.to_string())
            }
            fn from_json(s: &str) -> Result<Self, String> {
                serde_json::from_str(s).map_err(|e| e.to_string())
            }
            fn to_value(&self) -> Result<serde_json::Value, String> {
                serde_json::to_value(self).map_err(|e| e.to_string())
            }
            fn from_value(v: serde_json::Value) -> Result<Self, String> {
                serde_json::from_value(v).map_err(|e| e.to_string())
            }
            fn collect_val(v: &[(f64, f64)]) -> Self {
                v.iter().copied().collect()
            }
            fn collect_ref(v: &[(f64, f64)]) -> Self {
                v.iter().collect()
            }
            fn extend_val_(&mut self, v: &[(f64, f64)]) {
                Pair::extend_val(self, v)
            }
            fn extend_ref_(&mut self, v: &[(f64, f64)]) {
                Pair::extend_ref(self, v)
            }
            fn extend_val_u(&mut self, v: &[(f64, f64)]) {
                Pair::extend_val_unsized(self, v)
            }
            fn extend_ref_u(&mut self, v: &[(f64, f64)]) {
                Pair::extend_ref_unsized(self, v)
            }
            fn collect_val_u(v: &[(f64, f64)]) -> Self {
                <$T as Pair>::collect_val_unsized(v)
            }
            fn collect_ref_u(v: &[(f64, f64)]) -> Self {
                <$T as Pair>::collect_ref_unsized(v)
            }
        }
    };
}
est_pair!(WeightedMean, Kind::Weighted);
est_pair!(WeightedMeanWithError, Kind::Weighted);
est_pair!(Covariance, Kind::Xy);

/// Quantile with a fixed p per wrapper type (new() needs p; Default is the median).
macro_rules! est_quantile {
    ($W:ident, $p:expr, $name:expr) => {
        #[derive(Clone, Debug)]
        pub struct $W(pub Quantile);
        impl Est for $W {
            const NAME: &'static str = $name;
            const KIND: Kind = Kind::Uni;
            const HAS_MERGE: bool = false;
            const HAS_COLLECT: bool = false;
            const HAS_EXTEND: bool = false;
            fn new_() -> Self {
                $W(Quantile::new($p))
            }
            fn default_() -> Self {
                $W(Quantile::new($p))
            }
            fn add2(&mut self, x: f64, _: f64) {
                self.0.add(x)
            }
            fn merge_(&mut self, _: &Self) {}
            fn len_(&self) -> Option<u64> {
                Some(self.0.len())
            }
            fn is_empty_(&self) -> Option<bool> {
                Some(self.0.is_empty())
            }
            fn snap(&self) -> Snapshot {
                vec![("len".into(), self.0.len() as f64), ("is_empty".into(), self.0.is_empty() as u8 as f64), ("p".into(), self.0.p()), ("quantile".into(), self.0.quantile())]
            }
            fn dbg(&self) -> String {
                format!("{:?}", self.0)
            }
            fn to_json(&self) -> Result<String, String> {
                serde_json::to_string(&self.0).map_err(|e| e.to_string())
            }
            fn from_json(s: &str) -> Result<Self, String> {
                serde_json::from_str(s).map($W).map_err(|e| e.to_string())
            }
            fn to_value(&self) -> Result<serde_json::Value, String> {
                serde_json::to_value(&self.0).map_err(|e| e.to_string())
            }
            fn from_value(v: serde_json::Value) -> Result<Self, String> {
                serde_json::from_value(v).map($W).map_err(|e| e.to_string())
            }
            fn collect_val(_: &[(f64, f64)]) -> Self {
                Self::new_()
            }
            fn collect_ref(_: &[(f64, f64)]) -> Self {
                Self::new_()
            }
            fn extend_val_(&mut self, _: &[(f64, f64)]) {}
            fn extend_ref_(&mut self, _: &[(f64, f64)]) {}
            fn estimate_pair_(&self) -> Option<(f64, f64)> {
                Some((self.0.estimate(), self.0.quantile()))
            }
        }
    };
}
est_quantile!(QMedian, 0.5, "Quantile(0.5)");
est_quantile!(Q90, 0.9, "Quantile(0.9)");
est_quantile!(Q01, 0.01, "Quantile(0.01)");
est_quantile!(QMin, 0.0, "Quantile(0)");
est_quantile!(QMax, 1.0, "Quantile(1)");

/// Histogram over a fixed, finite edge vector per LEN (empty = same edges, zero counts).
#[derive(Clone)]
pub struct HW<H: Hist>(pub H);
pub fn fixed_edges(len: usize) -> Vec<f64> {
    match len {
        3 => vec![-1.0, 0.0, 0.0, 2.5],
        _ => (0..=len).map(|i| -5.0 + 10.0 * (i as f64) / (len as f64)).collect(),
    }
}
macro_rules! est_hist {
    ($H:ty, $name:expr) => {
        impl Est for HW<$H> {
            const NAME: &'static str = $name;
            const KIND: Kind = Kind::Histo;
            const HAS_COLLECT: bool = false;
            const HAS_EXTEND: bool = false;
            fn new_() -> Self {
                HW(<$H as Hist>::from_ranges(&fixed_edges(<$H as Hist>::LEN)).expect("fixed edges are valid"))
            }
            fn default_() -> Self {
                Self::new_()
            }
            fn add2(&mut self, x: f64, _: f64) {
                let _ = Hist::add(&mut self.0, x);
            }
            fn merge_(&mut self, o: &Self) {
                Hist::merge(&mut self.0, &o.0)
            }
            fn len_(&self) -> Option<u64> {
                Some(Hist::bins(&self.0).iter().sum())
            }
            fn dbg(&self) -> String {
                format!("{:?}", self.0)
            }
            fn is_empty_(&self) -> Option<bool> {
                None
            }
            fn snap(&self) -> Snapshot {
                crate::hist::full_snapshot(&self.0)
            }
            fn to_json(&self) -> Result<String, String> {
                Hist::to_json(&self.0).ok_or_else(|| "no serde".to_string())
            }
            fn from_json(s: &str) -> Result<Self, String> {
                <$H as Hist>::from_json(s).unwrap_or(Err("no serde".into())).map(HW)
            }
            fn to_value(&self) -> Result<serde_json::Value, String> {
                let s = Hist::to_json(&self.0).ok_or_else(|| "no serde".to_string())?;
                serde_json::from_str(&s).map_err(|e| e.to_string())
            }
            fn from_value(v: serde_json::Value) -> Result<Self, String> {
                Self::from_json(&v.to_string())
            }
            fn collect_val(_: &[(f64, f64)]) -> Self {
                Self::new_()
            }
            fn collect_ref(_: &[(f64, f64)]) -> Self {
                Self::new_()
            }
            fn extend_val_(&mut self, _: &[(f64, f64)]) {}
            fn extend_ref_(&mut self, _: &[(f64, f64)]) {}
        }
    };
}
est_hist!(crate::h3::Histogram, "Histogram<3>");
est_hist!(crate::h10::Histogram, "Histogram<10>");
est_hist!(crate::h100::Histogram, "Histogram<100>");

/// Histograms built by with_const_width (a different constructor may carry different hidden state)
#[derive(Clone)]
pub struct HCW<H: Hist>(pub H);
macro_rules! est_hist_cw {
    ($H:ty, $name:expr, $lo:expr, $hi:expr) => {
        impl Est for HCW<$H> {
            const NAME: &'static str = $name;
            const KIND: Kind = Kind::Histo;
            const HAS_COLLECT: bool = false;
            const HAS_EXTEND: bool = false;
            fn new_() -> Self {
                HCW(<$H as Hist>::with_const_width($lo, $hi))
            }
            fn default_() -> Self {
                Self::new_()
            }
            fn add2(&mut self, x: f64, _: f64) {
                let _ = Hist::add(&mut self.0, x);
            }
            fn merge_(&mut self, o: &Self) {
                Hist::merge(&mut self.0, &o.0)
            }
            fn len_(&self) -> Option<u64> {
                Some(Hist::bins(&self.0).iter().sum())
            }
            fn dbg(&self) -> String {
                format!("{:?}", self.0)
            }
            fn is_empty_(&self) -> Option<bool> {
                None
            }
            fn snap(&self) -> Snapshot {
                crate::hist::full_snapshot(&self.0)
            }
            fn to_json(&self) -> Result<String, String> {
                Hist::to_json(&self.0).ok_or_else(|| "no serde".to_string())
            }
            fn from_json(s: &str) -> Result<Self, String> {
                <$H as Hist>::from_json(s).unwrap_or(Err("no serde".into())).map(HCW)
            }
            fn to_value(&self) -> Result<serde_json::Value, String> {
                let s = Hist::to_json(&self.0).ok_or_else(|| "no serde".to_string())?;
                serde_json::from_str(&s).map_err(|e| e.to_string())
            }
            fn from_value(v: serde_json::Value) -> Result<Self, String> {
                Self::from_json(&v.to_string())
            }
            fn collect_val(_: &[(f64, f64)]) -> Self {
                Self::new_()
            }
            fn collect_ref(_: &[(f64, f64)]) -> Self {
                Self::new_()
            }
            fn extend_val_(&mut self, _: &[(f64, f64)]) {}
            fn extend_ref_(&mut self, _: &[(f64, f64)]) {}
        }
    };
}
est_hist_cw!(crate::h10::Histogram, "HistogramCW<10>(0,1)", 0.0, 1.0);
est_hist_cw!(crate::h3::Histogram, "HistogramCW<3>(-1,1)", -1.0, 1.0);

pub const MERGE_TYPES: &[&str] = &[
    "Mean", "Variance", "Skewness", "Kurtosis", "Moments4", "M6", "M10", "Min", "Max", "WeightedMean", "WeightedMeanWithError", "Covariance", "Histogram<3>", "Histogram<10>",
];
pub const SERDE_TYPES: &[&str] = &[
    "Mean", "Variance", "Skewness", "Kurtosis", "Moments4", "M6", "M10", "Min", "Max", "Quantile(0.5)", "Quantile(0.9)", "Quantile(0.01)", "Quantile(0)", "Quantile(1)", "WeightedMean", "WeightedMeanWithError", "Covariance", "Histogram<3>", "Histogram<10>", "Histogram<100>", "HistogramCW<10>(0,1)", "HistogramCW<3>(-1,1)",
];
pub const INGEST_TYPES: &[&str] = &["Mean", "Variance", "Skewness", "Kurtosis", "Moments4", "M6", "Min", "Max", "WeightedMean", "WeightedMeanWithError", "Covariance"];

pub fn kind_of(name: &str) -> Kind {
    match name {
        "WeightedMean" | "WeightedMeanWithError" => Kind::Weighted,
        "Covariance" => Kind::Xy,
        n if n.starts_with("Histogram") => Kind::Histo,
        _ => Kind::Uni,
    }
}

#[macro_export]
macro_rules! est_dispatch {
    ($name:expr, $f:ident $(, $a:expr)*) => {{
        use $crate::est::*;
        use $crate::types::*;
        match $name {
            "Mean" => Some($f::<average::Mean>($($a),*)),
            "Variance" => Some($f::<average::Variance>($($a),*)),
            "Skewness" => Some($f::<average::Skewness>($($a),*)),
            "Kurtosis" => Some($f::<average::Kurtosis>($($a),*)),
            "Moments4" => Some($f::<average::Moments4>($($a),*)),
            "M5" => Some($f::<M5>($($a),*)),
            "M6" => Some($f::<M6>($($a),*)),
            "M8" => Some($f::<M8>($($a),*)),
            "M10" => Some($f::<M10>($($a),*)),
            "Min" => Some($f::<average::Min>($($a),*)),
            "Max" => Some($f::<average::Max>($($a),*)),
            "WeightedMean" => Some($f::<average::WeightedMean>($($a),*)),
            "WeightedMeanWithError" => Some($f::<average::WeightedMeanWithError>($($a),*)),
            "Covariance" => Some($f::<average::Covariance>($($a),*)),
            "Quantile(0.5)" => Some($f::<QMedian>($($a),*)),
            "Quantile(0.9)" => Some($f::<Q90>($($a),*)),
            "Quantile(0.01)" => Some($f::<Q01>($($a),*)),
            "Quantile(0)" => Some($f::<QMin>($($a),*)),
            "Quantile(1)" => Some($f::<QMax>($($a),*)),
            "Histogram<3>" => Some($f::<HW<$crate::h3::Histogram>>($($a),*)),
            "Histogram<10>" => Some($f::<HW<$crate::h10::Histogram>>($($a),*)),
            "Histogram<100>" => Some($f::<HW<$crate::h100::Histogram>>($($a),*)),
            "HistogramCW<10>(0,1)" => Some($f::<HCW<$crate::h10::Histogram>>($($a),*)),
            "HistogramCW<3>(-1,1)" => Some($f::<HCW<$crate::h3::Histogram>>($($a),*)),
            _ => None,
        }
    }};
}
