//! proptest strategies shared by the property checks: data sets over the C01
//! domain (built by construction, DESIGN.md 4.3), chunkings, merge trees.
use crate::engine::Sm;
use proptest::collection::vec;
use proptest::prelude::*;
use proptest::sample::Index;

/// Acklam's rational approximation of the normal quantile function — a pure
/// function, so a proptest-generated uniform maps to a reproducible normal.
pub fn probit(u: f64) -> f64 {
    let p = u.clamp(1e-12, 1.0 - 1e-12);
    const A: [f64; 6] = [-3.969683028665376e+01, 2.209460984245205e+02, -2.759285104469687e+02, 1.383577518672690e+02, -3.066479806614716e+01, 2.506628277459239e+00];
    const B: [f64; 5] = [-5.447609879822406e+01, 1.615858368580409e+02, -1.556989798598866e+02, 6.680131188771972e+01, -1.328068155288572e+01];
    const C: [f64; 6] = [-7.784894002430293e-03, -3.223964580411365e-01, -2.400758277161838e+00, -2.549732539343734e+00, 4.374664141464968e+00, 2.938163982698783e+00];
    const D: [f64; 4] = [7.784695709041462e-03, 3.224671290700398e-01, 2.445134137142996e+00, 3.754408661907416e+00];
    let pl = 0.02425;
    if p < pl {
        let q = (-2.0 * p.ln()).sqrt();
        (((((C[0] * q + C[1]) * q + C[2]) * q + C[3]) * q + C[4]) * q + C[5]) / ((((D[0] * q + D[1]) * q + D[2]) * q + D[3]) * q + 1.0)
    } else if p <= 1.0 - pl {
        let q = p - 0.5;
        let r = q * q;
        (((((A[0] * r + A[1]) * r + A[2]) * r + A[3]) * r + A[4]) * r + A[5]) * q / (((((B[0] * r + B[1]) * r + B[2]) * r + B[3]) * r + B[4]) * r + 1.0)
    } else {
        let q = (-2.0 * (1.0 - p).ln()).sqrt();
        -(((((C[0] * q + C[1]) * q + C[2]) * q + C[3]) * q + C[4]) * q + C[5]) / ((((D[0] * q + D[1]) * q + D[2]) * q + D[3]) * q + 1.0)
    }
}

pub const SHAPES: usize = 14;
pub const SHAPE_NAMES: [&str; SHAPES] = [
    "uniform", "normal", "exponential", "lognormal", "two-point", "bimodal", "single-outlier", "arith-progression", "small-alphabet", "alternating", "neg-heavy-tail", "cubed-normal", "wild-magnitudes", "near-symmetric",
];

/// Map raw uniforms to a shape (values of order one, before placement).
pub fn shape_values(shape: usize, raw: &[f64]) -> Vec<f64> {
    let n = raw.len();
    let mut v: Vec<f64> = Vec::with_capacity(n);
    match shape {
        0 => v.extend(raw.iter().copied()),
        1 => v.extend(raw.iter().map(|&u| probit(u))),
        2 => v.extend(raw.iter().map(|&u| -(1.0 - u).max(1e-300).ln())),
        3 => v.extend(raw.iter().map(|&u| (2.0 * probit(u)).exp())),
        4 => v.extend(raw.iter().map(|&u| if u < 0.3 { 1.0 } else { 0.0 })),
        5 => v.extend(raw.iter().map(|&u| if u < 0.5 { probit(2.0 * u) - 4.0 } else { 0.5 * probit(2.0 * u - 1.0) + 3.0 })),
        6 => {
            v.extend(raw.iter().map(|&u| 0.01 * probit(u)));
            if n > 0 {
                let k = ((raw[0] * n as f64) as usize).min(n - 1);
                v[k] = if raw[n - 1] < 0.5 { -50.0 } else { 50.0 };
            }
        }
        7 => v.extend((0..n).map(|i| i as f64)),
        8 => v.extend(raw.iter().map(|&u| (4.0 * u).floor())),
        9 => v.extend((0..n).map(|i| if i % 2 == 0 { 1.0 } else { -1.0 })),
        10 => v.extend(raw.iter().map(|&u| -(3.0 * probit(u)).exp())),
        11 => v.extend(raw.iter().map(|&u| {
            let t = probit(u);
            t * t * t
        })),
        12 => v.extend(raw.iter().enumerate().map(|(i, &u)| {
            let s = if i % 3 == 0 { -1.0 } else { 1.0 };
            s * 10f64.powf(20.0 * u - 10.0)
        })),
        _ => {
            // mirror pairs +-a_j (exactly symmetric), then one element nudged by a relative 1e-12..1e-5:
            // tiny but non-zero odd moments
            for j in 0..n {
                let a = probit(raw[j / 2 * 2]).abs() + 0.25;
                v.push(if j % 2 == 0 { a } else { -a });
            }
            if n % 2 == 1 {
                v[n - 1] = 0.0;
            }
            if n >= 2 {
                let e = 10f64.powf(-12.0 + 7.0 * raw[n - 1]);
                v[0] *= 1.0 + e;
            }
        }
    }
    v
}

pub const ORDERS: usize = 6;
pub const ORDER_NAMES: [&str; ORDERS] = ["as-drawn", "ascending", "descending", "largest-abs-first", "smallest-abs-first", "zig-zag"];
pub fn reorder(v: &mut Vec<f64>, order: usize) {
    match order {
        0 => {}
        1 => v.sort_by(|a, b| a.partial_cmp(b).unwrap()),
        2 => v.sort_by(|a, b| b.partial_cmp(a).unwrap()),
        3 => v.sort_by(|a, b| b.abs().partial_cmp(&a.abs()).unwrap()),
        4 => v.sort_by(|a, b| a.abs().partial_cmp(&b.abs()).unwrap()),
        _ => {
            v.sort_by(|a, b| a.partial_cmp(b).unwrap());
            let n = v.len();
            let mut w = Vec::with_capacity(n);
            let (mut i, mut j) = (0usize, n);
            while i < j {
                w.push(v[i]);
                i += 1;
                if i < j {
                    j -= 1;
                    w.push(v[j]);
                }
            }
            *v = w;
        }
    }
}

/// Affine placement into the C01 value domain: x = s*(r - mean(r) + o) with
/// s = 10^ls and o = ±sd(r)*10^lk (or 0). The scale is clamped so that
/// max|x| <= 1e30; values that would fall below 1e-30 in magnitude are flushed to
/// 0 (an allowed value). Returns the placed data.
pub fn place(v: &[f64], ls: f64, lk: Option<f64>, neg_off: bool) -> Vec<f64> {
    let n = v.len() as f64;
    if v.is_empty() {
        return vec![];
    }
    let m = v.iter().sum::<f64>() / n;
    let sd = (v.iter().map(|x| (x - m) * (x - m)).sum::<f64>() / n).sqrt();
    let off = match lk {
        None => 0.0,
        Some(lk) => {
            let base = if sd > 0.0 { sd } else { 1.0 };
            base * 10f64.powf(lk) * if neg_off { -1.0 } else { 1.0 }
        }
    };
    let pre: Vec<f64> = v.iter().map(|x| x - m + off).collect();
    let mx = pre.iter().fold(0.0f64, |a, x| a.max(x.abs()));
    let mut s = 10f64.powf(ls);
    if mx > 0.0 && s * mx > 1e30 {
        s = 0.5e30 / mx;
    }
    pre.iter()
        .map(|x| {
            let y = s * x;
            if y != 0.0 && y.abs() < 1e-30 {
                0.0
            } else {
                y
            }
        })
        .collect()
}

#[derive(Clone, Debug)]
pub struct Placement {
    pub shape: usize,
    pub order: usize,
    pub ls: f64,
    pub lk: Option<f64>,
    pub neg: bool,
}

pub fn placement(max_lk: f64) -> impl Strategy<Value = Placement> {
    (0..SHAPES, 0..ORDERS, prop_oneof![3 => -15.0..15.0f64, 1 => -29.0..-15.0f64, 1 => 15.0..29.0f64], prop_oneof![1 => Just(None), 3 => (0.0..max_lk).prop_map(Some)], any::<bool>())
        .prop_map(|(shape, order, ls, lk, neg)| Placement { shape, order, ls, lk, neg })
}

pub fn build_dataset(raw: &[f64], pl: &Placement) -> Vec<f64> {
    let v = shape_values(pl.shape, raw);
    let mut v = place(&v, pl.ls, pl.lk, pl.neg);
    reorder(&mut v, pl.order);
    v
}

fn unit() -> impl Strategy<Value = f64> {
    0.0..1.0f64
}

/// Raw uniform vectors with the n-distribution of DESIGN.md section 5:
/// 40 % 1–9, 40 % 2–200, 15 % <= mid, 5 % <= big.
pub fn raw_vec(min_n: usize, mid: usize, big: usize) -> impl Strategy<Value = Vec<f64>> {
    let a = min_n.max(1);
    prop_oneof![
        8 => vec(unit(), a..(a + 9)),
        8 => vec(unit(), a.max(2)..201),
        3 => vec(unit(), 201..(mid.max(202) + 1)),
        1 => vec(unit(), (mid.max(202) + 1)..(big.max(mid + 2).max(204) + 1)),
    ]
}

/// A data set over the C01 domain (placement by construction; the caller still
/// verifies the domain with the exact sigma and counts what it discards).
pub fn dataset(min_n: usize, mid: usize, big: usize, max_lk: f64) -> impl Strategy<Value = Vec<f64>> {
    (raw_vec(min_n, mid, big), placement(max_lk)).prop_map(|(raw, pl)| build_dataset(&raw, &pl))
}

/// Same, but restricted to the given shapes (C03 weights skewed shapes).
pub fn dataset_shapes(shapes: &'static [usize], min_n: usize, mid: usize, big: usize, max_lk: f64) -> impl Strategy<Value = Vec<f64>> {
    (raw_vec(min_n, mid, big), placement(max_lk), 0..shapes.len()).prop_map(move |(raw, mut pl, si)| {
        pl.shape = shapes[si];
        build_dataset(&raw, &pl)
    })
}

/// Bulk data (10^5..10^6 elements): a proptest-generated seed expanded by the
/// deterministic PRNG — element-wise proptest trees would cost gigabytes.
pub fn bulk_dataset(n: usize, seed: u64, pl: &Placement) -> Vec<f64> {
    let mut r = Sm(seed);
    let raw: Vec<f64> = (0..n).map(|_| r.f()).collect();
    build_dataset(&raw, pl)
}

/// Cut positions (sorted, in 0..=n, duplicates allowed => empty chunks).
#[derive(Clone, Debug)]
pub enum CutMode {
    Few(Vec<Index>),
    Many(Vec<Index>),
    Singletons,
    SingletonsPlusEmpties(Vec<Index>),
    /// equal-size chunks (block-wise processing; with periodic data the chunk means coincide bit for bit)
    Regular(usize),
}
pub fn cut_mode() -> impl Strategy<Value = CutMode> {
    prop_oneof![
        3 => vec(any::<Index>(), 0..4).prop_map(CutMode::Few),
        3 => vec(any::<Index>(), 4..12).prop_map(CutMode::Many),
        2 => Just(CutMode::Singletons),
        1 => vec(any::<Index>(), 1..4).prop_map(CutMode::SingletonsPlusEmpties),
        2 => proptest::sample::select(vec![2usize, 3, 4, 7, 8, 16, 64, 100, 256, 1024, 4096]).prop_map(CutMode::Regular),
    ]
}
pub fn make_cuts(mode: &CutMode, n: usize) -> Vec<usize> {
    let mut cuts: Vec<usize> = match mode {
        CutMode::Few(ix) | CutMode::Many(ix) => ix.iter().map(|i| i.index(n + 1)).collect(),
        CutMode::Singletons => (1..n).collect(),
        CutMode::Regular(step) => (1..n).filter(|i| i % step == 0).collect(),
        CutMode::SingletonsPlusEmpties(ix) => {
            let mut c: Vec<usize> = (1..n).collect();
            c.extend(ix.iter().map(|i| i.index(n + 1)));
            c
        }
    };
    if cuts.len() > 4000 {
        // keep merge trees affordable on long inputs: every k-th cut
        let k = cuts.len() / 4000 + 1;
        cuts = cuts.into_iter().step_by(k).collect();
    }
    cuts.sort();
    cuts
}

/// Merge order over k chunks: at each step the index of the left element of the
/// adjacent pair that is merged (left.merge(&right)).
#[derive(Clone, Debug)]
pub enum TreeMode {
    LeftChain,
    RightChain,
    Balanced,
    Random(Vec<Index>),
}
pub fn tree_mode() -> impl Strategy<Value = TreeMode> {
    prop_oneof![
        1 => Just(TreeMode::LeftChain),
        1 => Just(TreeMode::RightChain),
        1 => Just(TreeMode::Balanced),
        3 => vec(any::<Index>(), 16).prop_map(TreeMode::Random),
    ]
}
pub fn make_merges(mode: &TreeMode, k: usize) -> Vec<usize> {
    let mut out = Vec::with_capacity(k.saturating_sub(1));
    let mut len = k;
    match mode {
        TreeMode::LeftChain => {
            while len > 1 {
                out.push(0);
                len -= 1;
            }
        }
        TreeMode::RightChain => {
            while len > 1 {
                out.push(len - 2);
                len -= 1;
            }
        }
        TreeMode::Balanced => {
            // rounds of pairwise merges: (0,1),(2,3),...
            while len > 1 {
                let pairs = len / 2;
                for p in 0..pairs {
                    out.push(p); // after merging pair p, the next pair starts at p+1
                }
                len -= pairs;
            }
        }
        TreeMode::Random(ix) => {
            let mut j = 0usize;
            // stretch the 16 generated indices deterministically over all steps
            let mut r = Sm(ix.iter().fold(0u64, |a, i| a.wrapping_mul(31).wrapping_add(i.index(1 << 20) as u64)));
            while len > 1 {
                let pick = if j < ix.len() { ix[j].index(len - 1) } else { r.below(len as u64 - 1) as usize };
                j += 1;
                out.push(pick);
                len -= 1;
            }
        }
    }
    out
}

/// Execute a chunking + merge order with a builder and a merge function.
pub fn run_merge_tree<T>(n: usize, cuts: &[usize], merges: &[usize], build: impl Fn(usize, usize) -> T, merge: impl Fn(&mut T, &T)) -> T {
    let mut b = Vec::with_capacity(cuts.len() + 2);
    b.push(0);
    b.extend(cuts.iter().map(|&c| c.min(n)));
    b.push(n);
    let mut parts: Vec<T> = b.windows(2).map(|w| build(w[0], w[1].max(w[0]))).collect();
    for &i in merges {
        if parts.len() < 2 {
            break;
        }
        let i = i.min(parts.len() - 2);
        let right = parts.remove(i + 1);
        merge(&mut parts[i], &right);
    }
    // a merge list that is too short: finish as a left chain
    while parts.len() > 1 {
        let right = parts.remove(1);
        merge(&mut parts[0], &right);
    }
    parts.pop().unwrap()
}

/// depth of the merge tree (longest chain of merges a leaf takes part in)
pub fn tree_depth(k: usize, merges: &[usize]) -> usize {
    let mut d: Vec<usize> = vec![0; k];
    for &i in merges {
        if d.len() < 2 {
            break;
        }
        let i = i.min(d.len() - 2);
        let r = d.remove(i + 1);
        d[i] = d[i].max(r) + 1;
    }
    d.into_iter().max().unwrap_or(0)
}
