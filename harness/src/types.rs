//! The estimator types under test behind two small traits, so that every check
//! is written once and instantiated for every type: `Uni` (one f64 per
//! observation) and `Pair` (two f64 per observation).
use crate::engine::{fail, Obs, TestResult};
use crate::exact::Xf;
use crate::oracle::*;
use average::{Covariance, Estimate, Kurtosis, Max, Mean, Merge, Min, Moments4, Skewness, Variance, WeightedMean, WeightedMeanWithError};
use serde::de::DeserializeOwned;
use serde::Serialize;

pub mod mm4 {
    average::define_moments!(M4, 4);
}
pub mod mm5 {
    average::define_moments!(M5, 5);
}
pub mod mm6 {
    average::define_moments!(M6, 6);
}
pub mod mm7 {
    average::define_moments!(M7, 7);
}
pub mod mm9 {
    average::define_moments!(M9, 9);
}
pub mod mm8 {
    average::define_moments!(M8, 8);
}
pub mod mm10 {
    average::define_moments!(M10, 10);
}
pub use mm10::M10;
pub use mm4::M4;
pub use mm5::M5;
pub use mm6::M6;
pub use mm7::M7;
pub use mm8::M8;
pub use mm9::M9;

/// (accessor name, value) for every public statistic accessor.
pub type Snapshot = Vec<(String, f64)>;

pub fn snap_diff(a: &Snapshot, b: &Snapshot) -> Option<String> {
    if a.len() != b.len() {
        return Some(format!("snapshots have different shapes: {} vs {} entries", a.len(), b.len()));
    }
    for (x, y) in a.iter().zip(b.iter()) {
        if x.0 != y.0 {
            return Some(format!("snapshot entry {} vs {}", x.0, y.0));
        }
        let same = x.1.to_bits() == y.1.to_bits() || (x.1.is_nan() && y.1.is_nan());
        if !same {
            return Some(format!("{}: {:?} (bits {:016x}) vs {:?} (bits {:016x})", x.0, x.1, x.1.to_bits(), y.1, y.1.to_bits()));
        }
    }
    None
}

pub trait Uni: Clone + Merge + Serialize + DeserializeOwned + std::fmt::Debug + std::iter::FromIterator<f64> + for<'a> std::iter::FromIterator<&'a f64> {
    const NAME: &'static str;
    /// highest central-moment order the type reports (0 for Min/Max)
    const ORDER: usize;
    const HAS_EXTEND: bool = true;
    fn new() -> Self;
    fn default_() -> Self;
    fn add(&mut self, x: f64);
    fn len(&self) -> Option<u64>;
    fn is_empty(&self) -> Option<bool>;
    fn snapshot(&self) -> Snapshot;
    /// Estimate::estimate() where the type implements Estimate, and the
    /// headline accessor it must equal.
    fn estimate_pair(&self) -> Option<(f64, f64)>;
    fn extend_val(&mut self, xs: &[f64]);
    fn extend_ref(&mut self, xs: &[f64]);
    /// the same through iterators whose size_hint lower bound is 0 (filter)
    fn extend_val_unsized(&mut self, xs: &[f64]);
    fn extend_ref_unsized(&mut self, xs: &[f64]);
    fn collect_val_unsized(xs: &[f64]) -> Self {
        xs.iter().copied().filter(|x| x.to_bits() != 0x7ff8_dead_beef_0001).collect()
    }
    fn collect_ref_unsized(xs: &[f64]) -> Self {
        xs.iter().filter(|x| x.to_bits() != 0x7ff8_dead_beef_0001).collect()
    }
    /// Judge every accessor against the exact statistics of the data
    /// (`ex` computed to order >= Self::ORDER). Statistics undefined for the
    /// sample size are left to C10/C16.
    fn judge(&self, ex: &Exact, o: &mut Obs) -> TestResult;
}

fn judge_mean_len(name: &str, len: u64, mean: f64, ex: &Exact, o: &mut Obs) -> TestResult {
    judge_eq_u64(o, &format!("{}::len", name), len, ex.n)?;
    judge(o, &format!("{}::mean", name), mean, &ex.mean, ex.env_mean())
}

/// variance-family accessors (scale: the exact value, C = 16)
fn judge_variances(name: &str, pv: f64, sv: f64, vom: Option<f64>, err: Option<f64>, ex: &Exact, o: &mut Obs) -> TestResult {
    if ex.zero_spread {
        return Ok(());
    }
    let r = 16.0 * ex.nku();
    let e = ex.pop_var();
    judge(o, &format!("{}::population_variance", name), pv, &e, r * e.to_f64())?;
    if ex.n >= 2 {
        let e = ex.sample_var();
        judge(o, &format!("{}::sample_variance", name), sv, &e, r * e.to_f64())?;
        let e = ex.var_of_mean();
        if let Some(v) = vom {
            judge(o, &format!("{}::variance_of_mean", name), v, &e, r * e.to_f64())?;
        }
        if let Some(v) = err {
            let e = e.sqrt();
            judge(o, &format!("{}::error", name), v, &e, r * e.to_f64())?;
        }
    }
    Ok(())
}

fn judge_skew(name: &str, g1: f64, ex: &Exact, o: &mut Obs) -> TestResult {
    if ex.zero_spread {
        return Ok(());
    }
    judge(o, &format!("{}::skewness", name), g1, &ex.standardized(3), 32.0 * ex.nku() * ex.beta(3))
}
fn judge_kurt(name: &str, g2: f64, ex: &Exact, o: &mut Obs) -> TestResult {
    if ex.zero_spread {
        return Ok(());
    }
    let b4 = ex.standardized(4);
    judge(o, &format!("{}::kurtosis", name), g2, &b4.sub(&Xf::from_f64(3.0)), 64.0 * ex.nku() * b4.to_f64())
}

impl Uni for Mean {
    const NAME: &'static str = "Mean";
    const ORDER: usize = 1;
    fn new() -> Self {
        Mean::new()
    }
    fn default_() -> Self {
        Default::default()
    }
    fn add(&mut self, x: f64) {
        Estimate::add(self, x)
    }
    fn len(&self) -> Option<u64> {
        Some(Mean::len(self))
    }
    fn is_empty(&self) -> Option<bool> {
        Some(Mean::is_empty(self))
    }
    fn snapshot(&self) -> Snapshot {
        vec![("len".into(), Mean::len(self) as f64), ("is_empty".into(), Mean::is_empty(self) as u8 as f64), ("mean".into(), self.mean())]
    }
    fn estimate_pair(&self) -> Option<(f64, f64)> {
        Some((self.estimate(), self.mean()))
    }
    fn extend_val(&mut self, xs: &[f64]) {
        self.extend(xs.iter().copied())
    }
    fn extend_ref(&mut self, xs: &[f64]) {
        self.extend(xs.iter())
    }
    fn extend_val_unsized(&mut self, xs: &[f64]) {
        self.extend(xs.iter().copied().filter(|x| x.to_bits() != 0x7ff8_dead_beef_0001))
    }
    fn extend_ref_unsized(&mut self, xs: &[f64]) {
        self.extend(xs.iter().filter(|x| x.to_bits() != 0x7ff8_dead_beef_0001))
    }
    fn judge(&self, ex: &Exact, o: &mut Obs) -> TestResult {
        judge_mean_len("Mean", Mean::len(self), self.mean(), ex, o)
    }
}

impl Uni for Variance {
    const NAME: &'static str = "Variance";
    const ORDER: usize = 2;
    fn new() -> Self {
        Variance::new()
    }
    fn default_() -> Self {
        Default::default()
    }
    fn add(&mut self, x: f64) {
        Estimate::add(self, x)
    }
    fn len(&self) -> Option<u64> {
        Some(Variance::len(self))
    }
    fn is_empty(&self) -> Option<bool> {
        Some(Variance::is_empty(self))
    }
    fn snapshot(&self) -> Snapshot {
        vec![
            ("len".into(), Variance::len(self) as f64),
            ("is_empty".into(), Variance::is_empty(self) as u8 as f64),
            ("mean".into(), self.mean()),
            ("population_variance".into(), self.population_variance()),
            ("sample_variance".into(), self.sample_variance()),
            ("variance_of_mean".into(), self.variance_of_mean()),
            ("error".into(), self.error()),
        ]
    }
    fn estimate_pair(&self) -> Option<(f64, f64)> {
        Some((self.estimate(), self.population_variance()))
    }
    fn extend_val(&mut self, xs: &[f64]) {
        self.extend(xs.iter().copied())
    }
    fn extend_ref(&mut self, xs: &[f64]) {
        self.extend(xs.iter())
    }
    fn extend_val_unsized(&mut self, xs: &[f64]) {
        self.extend(xs.iter().copied().filter(|x| x.to_bits() != 0x7ff8_dead_beef_0001))
    }
    fn extend_ref_unsized(&mut self, xs: &[f64]) {
        self.extend(xs.iter().filter(|x| x.to_bits() != 0x7ff8_dead_beef_0001))
    }
    fn judge(&self, ex: &Exact, o: &mut Obs) -> TestResult {
        judge_mean_len("Variance", Variance::len(self), self.mean(), ex, o)?;
        judge_variances("Variance", self.population_variance(), self.sample_variance(), Some(self.variance_of_mean()), Some(self.error()), ex, o)
    }
}

impl Uni for Skewness {
    const NAME: &'static str = "Skewness";
    const ORDER: usize = 3;
    fn new() -> Self {
        Skewness::new()
    }
    fn default_() -> Self {
        Default::default()
    }
    fn add(&mut self, x: f64) {
        Estimate::add(self, x)
    }
    fn len(&self) -> Option<u64> {
        Some(Skewness::len(self))
    }
    fn is_empty(&self) -> Option<bool> {
        Some(Skewness::is_empty(self))
    }
    fn snapshot(&self) -> Snapshot {
        vec![
            ("len".into(), Skewness::len(self) as f64),
            ("is_empty".into(), Skewness::is_empty(self) as u8 as f64),
            ("mean".into(), self.mean()),
            ("population_variance".into(), self.population_variance()),
            ("sample_variance".into(), self.sample_variance()),
            ("error_mean".into(), self.error_mean()),
            ("skewness".into(), self.skewness()),
        ]
    }
    fn estimate_pair(&self) -> Option<(f64, f64)> {
        Some((self.estimate(), self.skewness()))
    }
    fn extend_val(&mut self, xs: &[f64]) {
        self.extend(xs.iter().copied())
    }
    fn extend_ref(&mut self, xs: &[f64]) {
        self.extend(xs.iter())
    }
    fn extend_val_unsized(&mut self, xs: &[f64]) {
        self.extend(xs.iter().copied().filter(|x| x.to_bits() != 0x7ff8_dead_beef_0001))
    }
    fn extend_ref_unsized(&mut self, xs: &[f64]) {
        self.extend(xs.iter().filter(|x| x.to_bits() != 0x7ff8_dead_beef_0001))
    }
    fn judge(&self, ex: &Exact, o: &mut Obs) -> TestResult {
        judge_mean_len("Skewness", Skewness::len(self), self.mean(), ex, o)?;
        judge_variances("Skewness", self.population_variance(), self.sample_variance(), None, Some(self.error_mean()), ex, o)?;
        judge_skew("Skewness", self.skewness(), ex, o)
    }
}

impl Uni for Kurtosis {
    const NAME: &'static str = "Kurtosis";
    const ORDER: usize = 4;
    fn new() -> Self {
        Kurtosis::new()
    }
    fn default_() -> Self {
        Default::default()
    }
    fn add(&mut self, x: f64) {
        Estimate::add(self, x)
    }
    fn len(&self) -> Option<u64> {
        Some(Kurtosis::len(self))
    }
    fn is_empty(&self) -> Option<bool> {
        Some(Kurtosis::is_empty(self))
    }
    fn snapshot(&self) -> Snapshot {
        vec![
            ("len".into(), Kurtosis::len(self) as f64),
            ("is_empty".into(), Kurtosis::is_empty(self) as u8 as f64),
            ("mean".into(), self.mean()),
            ("population_variance".into(), self.population_variance()),
            ("sample_variance".into(), self.sample_variance()),
            ("error_mean".into(), self.error_mean()),
            ("skewness".into(), self.skewness()),
            ("kurtosis".into(), self.kurtosis()),
        ]
    }
    fn estimate_pair(&self) -> Option<(f64, f64)> {
        Some((self.estimate(), self.kurtosis()))
    }
    fn extend_val(&mut self, xs: &[f64]) {
        self.extend(xs.iter().copied())
    }
    fn extend_ref(&mut self, xs: &[f64]) {
        self.extend(xs.iter())
    }
    fn extend_val_unsized(&mut self, xs: &[f64]) {
        self.extend(xs.iter().copied().filter(|x| x.to_bits() != 0x7ff8_dead_beef_0001))
    }
    fn extend_ref_unsized(&mut self, xs: &[f64]) {
        self.extend(xs.iter().filter(|x| x.to_bits() != 0x7ff8_dead_beef_0001))
    }
    fn judge(&self, ex: &Exact, o: &mut Obs) -> TestResult {
        judge_mean_len("Kurtosis", Kurtosis::len(self), self.mean(), ex, o)?;
        judge_variances("Kurtosis", self.population_variance(), self.sample_variance(), None, Some(self.error_mean()), ex, o)?;
        judge_skew("Kurtosis", self.skewness(), ex, o)?;
        judge_kurt("Kurtosis", self.kurtosis(), ex, o)
    }
}

/// C04 arithmetic preconditions for order N (DESIGN.md 4.3): no overflow
/// (n*M^N < 1e300) and no subnormal intermediate at the scale that matters
/// (rho_N * u > 1e-290).
pub fn order_ok(ex: &Exact, order: usize) -> bool {
    if order <= 4 {
        return true;
    }
    let lm = ex.max_abs.log10();
    if (ex.nf().log10() + order as f64 * lm) >= 300.0 {
        return false;
    }
    if ex.zero_spread {
        return true;
    }
    // rho_N >= sigma^N; use the exact rho_N when available
    let rho = if ex.asum.len() > order { ex.abs_central(order) } else { ex.sigma().powi(order as u32) };
    // log10(rho*u) > -290
    let l = (rho.hi.abs().log2() + rho.e as f64) * std::f64::consts::LOG10_2;
    l + U.log10() > -290.0
}

macro_rules! impl_moments {
    ($T:ty, $name:expr, $N:expr) => {
        impl Uni for $T {
            const NAME: &'static str = $name;
            const ORDER: usize = $N;
            fn new() -> Self {
                <$T>::new()
            }
            fn default_() -> Self {
                Default::default()
            }
            fn add(&mut self, x: f64) {
                <$T>::add(self, x)
            }
            fn len(&self) -> Option<u64> {
                Some(<$T>::len(self))
            }
            fn is_empty(&self) -> Option<bool> {
                Some(<$T>::is_empty(self))
            }
            fn snapshot(&self) -> Snapshot {
                let mut v: Snapshot = vec![
                    ("len".into(), <$T>::len(self) as f64),
                    ("is_empty".into(), <$T>::is_empty(self) as u8 as f64),
                    ("mean".into(), self.mean()),
                    ("sample_variance".into(), self.sample_variance()),
                    ("sample_excess_kurtosis".into(), self.sample_excess_kurtosis()),
                ];
                let var = self.central_moment(2);
                // standardized_moment(p>=3) is only a total function for
                // non-zero variance (documented assertion)
                v.push(("sample_skewness".into(), self.sample_skewness()));
                for p in 0..=$N {
                    v.push((format!("central_moment({})", p), self.central_moment(p)));
                    if p < 3 || var != 0.0 {
                        v.push((format!("standardized_moment({})", p), self.standardized_moment(p)));
                    }
                }
                v
            }
            fn estimate_pair(&self) -> Option<(f64, f64)> {
                None
            }
            fn extend_val(&mut self, xs: &[f64]) {
                self.extend(xs.iter().copied())
            }
            fn extend_ref(&mut self, xs: &[f64]) {
                self.extend(xs.iter())
            }
            fn extend_val_unsized(&mut self, xs: &[f64]) {
                self.extend(xs.iter().copied().filter(|x| x.to_bits() != 0x7ff8_dead_beef_0001))
            }
            fn extend_ref_unsized(&mut self, xs: &[f64]) {
                self.extend(xs.iter().filter(|x| x.to_bits() != 0x7ff8_dead_beef_0001))
            }
            fn judge(&self, ex: &Exact, o: &mut Obs) -> TestResult {
                let nm = $name;
                judge_mean_len(nm, <$T>::len(self), self.mean(), ex, o)?;
                judge_bits(o, &format!("{}::central_moment(0)", nm), self.central_moment(0), 1.0)?;
                judge_bits(o, &format!("{}::central_moment(1)", nm), self.central_moment(1), 0.0)?;
                judge_bits(o, &format!("{}::standardized_moment(0)", nm), self.standardized_moment(0), ex.nf())?;
                judge_bits(o, &format!("{}::standardized_moment(1)", nm), self.standardized_moment(1), 0.0)?;
                judge_bits(o, &format!("{}::standardized_moment(2)", nm), self.standardized_moment(2), 1.0)?;
                if ex.zero_spread {
                    return Ok(());
                }
                let r = ex.nku();
                let e = ex.pop_var();
                judge(o, &format!("{}::central_moment(2)", nm), self.central_moment(2), &e, 16.0 * r * e.to_f64())?;
                if ex.n >= 2 {
                    let e = ex.sample_var();
                    judge(o, &format!("{}::sample_variance", nm), self.sample_variance(), &e, 16.0 * r * e.to_f64())?;
                }
                for p in 3..=$N {
                    judge(o, &format!("{}::central_moment({})", nm, p), self.central_moment(p), &ex.central(p), cp(p) * r * ex.abs_central(p).to_f64())?;
                    judge(o, &format!("{}::standardized_moment({})", nm, p), self.standardized_moment(p), &ex.standardized(p), cp(p) * r * ex.beta(p))?;
                }
                let n = ex.nf();
                if ex.n >= 3 {
                    let f = (n * (n - 1.0)).sqrt() / (n - 2.0);
                    let want = ex.standardized(3).mul(&Xf::from_f64(n * (n - 1.0)).sqrt()).div(&Xf::from_f64(n - 2.0));
                    judge(o, &format!("{}::sample_skewness", nm), self.sample_skewness(), &want, 32.0 * r * ex.beta(3) * f)?;
                }
                if ex.n >= 4 {
                    let b4 = ex.standardized(4);
                    let g2 = b4.sub(&Xf::from_f64(3.0));
                    let f = Xf::from_f64(n - 1.0).div(&Xf::from_f64((n - 2.0) * (n - 3.0)));
                    let want = g2.mul(&Xf::from_f64(n + 1.0)).add(&Xf::from_f64(6.0)).mul(&f);
                    let scale = b4.to_f64() * (n * n - 1.0) / ((n - 2.0) * (n - 3.0));
                    judge(o, &format!("{}::sample_excess_kurtosis", nm), self.sample_excess_kurtosis(), &want, 64.0 * r * scale)?;
                }
                Ok(())
            }
        }
    };
}
impl_moments!(Moments4, "Moments4", 4);
impl_moments!(M5, "M5", 5);
impl_moments!(M6, "M6", 6);
impl_moments!(M7, "M7", 7);
impl_moments!(M8, "M8", 8);
impl_moments!(M9, "M9", 9);
impl_moments!(M10, "M10", 10);

impl Uni for Min {
    const NAME: &'static str = "Min";
    const ORDER: usize = 0;
    fn new() -> Self {
        Min::new()
    }
    fn default_() -> Self {
        Default::default()
    }
    fn add(&mut self, x: f64) {
        Estimate::add(self, x)
    }
    fn len(&self) -> Option<u64> {
        None
    }
    fn is_empty(&self) -> Option<bool> {
        None
    }
    fn snapshot(&self) -> Snapshot {
        vec![("min".into(), self.min())]
    }
    fn estimate_pair(&self) -> Option<(f64, f64)> {
        Some((self.estimate(), self.min()))
    }
    fn extend_val(&mut self, xs: &[f64]) {
        self.extend(xs.iter().copied())
    }
    fn extend_ref(&mut self, xs: &[f64]) {
        self.extend(xs.iter())
    }
    fn extend_val_unsized(&mut self, xs: &[f64]) {
        self.extend(xs.iter().copied().filter(|x| x.to_bits() != 0x7ff8_dead_beef_0001))
    }
    fn extend_ref_unsized(&mut self, xs: &[f64]) {
        self.extend(xs.iter().filter(|x| x.to_bits() != 0x7ff8_dead_beef_0001))
    }
    fn judge(&self, ex: &Exact, o: &mut Obs) -> TestResult {
        o.evals += 1;
        if self.min() != ex.min {
            return fail("exact:Min::min", format!("Min::min = {:?} but the smallest observation is {:?}", self.min(), ex.min));
        }
        Ok(())
    }
}

impl Uni for Max {
    const NAME: &'static str = "Max";
    const ORDER: usize = 0;
    const HAS_EXTEND: bool = false;
    fn new() -> Self {
        Max::new()
    }
    fn default_() -> Self {
        Default::default()
    }
    fn add(&mut self, x: f64) {
        Estimate::add(self, x)
    }
    fn len(&self) -> Option<u64> {
        None
    }
    fn is_empty(&self) -> Option<bool> {
        None
    }
    fn snapshot(&self) -> Snapshot {
        vec![("max".into(), self.max())]
    }
    fn estimate_pair(&self) -> Option<(f64, f64)> {
        Some((self.estimate(), self.max()))
    }
    // Max has no Extend impl; callers consult HAS_EXTEND and never get here
    fn extend_val(&mut self, xs: &[f64]) {
        for &x in xs {
            Estimate::add(self, x)
        }
    }
    fn extend_ref(&mut self, xs: &[f64]) {
        for x in xs {
            Estimate::add(self, *x)
        }
    }
    fn extend_val_unsized(&mut self, xs: &[f64]) {
        for &x in xs {
            Estimate::add(self, x)
        }
    }
    fn extend_ref_unsized(&mut self, xs: &[f64]) {
        for x in xs {
            Estimate::add(self, *x)
        }
    }
    fn judge(&self, ex: &Exact, o: &mut Obs) -> TestResult {
        o.evals += 1;
        if self.max() != ex.max {
            return fail("exact:Max::max", format!("Max::max = {:?} but the largest observation is {:?}", self.max(), ex.max));
        }
        Ok(())
    }
}

/// Two values per observation.
pub trait Pair: Clone + Merge + Serialize + DeserializeOwned + std::fmt::Debug + std::iter::FromIterator<(f64, f64)> + for<'a> std::iter::FromIterator<&'a (f64, f64)> {
    const NAME: &'static str;
    fn new() -> Self;
    fn default_() -> Self;
    fn add(&mut self, a: f64, b: f64);
    fn len(&self) -> Option<u64>;
    fn is_empty(&self) -> Option<bool>;
    fn snapshot(&self) -> Snapshot;
    fn extend_val(&mut self, xs: &[(f64, f64)]);
    fn extend_ref(&mut self, xs: &[(f64, f64)]);
    fn extend_val_unsized(&mut self, xs: &[(f64, f64)]);
    fn extend_ref_unsized(&mut self, xs: &[(f64, f64)]);
    fn collect_val_unsized(xs: &[(f64, f64)]) -> Self {
        xs.iter().copied().filter(|p| p.0.to_bits() != 0x7ff8_dead_beef_0001).collect()
    }
    fn collect_ref_unsized(xs: &[(f64, f64)]) -> Self {
        xs.iter().filter(|p| p.0.to_bits() != 0x7ff8_dead_beef_0001).collect()
    }
}

impl Pair for WeightedMean {
    const NAME: &'static str = "WeightedMean";
    fn new() -> Self {
        WeightedMean::new()
    }
    fn default_() -> Self {
        Default::default()
    }
    fn add(&mut self, a: f64, b: f64) {
        WeightedMean::add(self, a, b)
    }
    fn len(&self) -> Option<u64> {
        None
    }
    fn is_empty(&self) -> Option<bool> {
        // documented as possibly false-positive for zero weight sums: not a length predicate
        None
    }
    fn snapshot(&self) -> Snapshot {
        vec![("is_empty".into(), WeightedMean::is_empty(self) as u8 as f64), ("sum_weights".into(), self.sum_weights()), ("mean".into(), self.mean())]
    }
    fn extend_val(&mut self, xs: &[(f64, f64)]) {
        self.extend(xs.iter().copied())
    }
    fn extend_ref(&mut self, xs: &[(f64, f64)]) {
        self.extend(xs.iter())
    }
    fn extend_val_unsized(&mut self, xs: &[(f64, f64)]) {
        self.extend(xs.iter().copied().filter(|p| p.0.to_bits() != 0x7ff8_dead_beef_0001))
    }
    fn extend_ref_unsized(&mut self, xs: &[(f64, f64)]) {
        self.extend(xs.iter().filter(|p| p.0.to_bits() != 0x7ff8_dead_beef_0001))
    }
}

impl Pair for WeightedMeanWithError {
    const NAME: &'static str = "WeightedMeanWithError";
    fn new() -> Self {
        WeightedMeanWithError::new()
    }
    fn default_() -> Self {
        Default::default()
    }
    fn add(&mut self, a: f64, b: f64) {
        WeightedMeanWithError::add(self, a, b)
    }
    fn len(&self) -> Option<u64> {
        Some(WeightedMeanWithError::len(self))
    }
    fn is_empty(&self) -> Option<bool> {
        Some(WeightedMeanWithError::is_empty(self))
    }
    fn snapshot(&self) -> Snapshot {
        vec![
            ("len".into(), WeightedMeanWithError::len(self) as f64),
            ("is_empty".into(), WeightedMeanWithError::is_empty(self) as u8 as f64),
            ("sum_weights".into(), self.sum_weights()),
            ("sum_weights_sq".into(), self.sum_weights_sq()),
            ("weighted_mean".into(), self.weighted_mean()),
            ("unweighted_mean".into(), self.unweighted_mean()),
            ("effective_len".into(), self.effective_len()),
            ("population_variance".into(), self.population_variance()),
            ("sample_variance".into(), self.sample_variance()),
            ("variance_of_weighted_mean".into(), self.variance_of_weighted_mean()),
            ("error".into(), self.error()),
        ]
    }
    fn extend_val(&mut self, xs: &[(f64, f64)]) {
        self.extend(xs.iter().copied())
    }
    fn extend_ref(&mut self, xs: &[(f64, f64)]) {
        self.extend(xs.iter())
    }
    fn extend_val_unsized(&mut self, xs: &[(f64, f64)]) {
        self.extend(xs.iter().copied().filter(|p| p.0.to_bits() != 0x7ff8_dead_beef_0001))
    }
    fn extend_ref_unsized(&mut self, xs: &[(f64, f64)]) {
        self.extend(xs.iter().filter(|p| p.0.to_bits() != 0x7ff8_dead_beef_0001))
    }
}

impl Pair for Covariance {
    const NAME: &'static str = "Covariance";
    fn new() -> Self {
        Covariance::new()
    }
    fn default_() -> Self {
        Default::default()
    }
    fn add(&mut self, a: f64, b: f64) {
        Covariance::add(self, a, b)
    }
    fn len(&self) -> Option<u64> {
        Some(Covariance::len(self))
    }
    fn is_empty(&self) -> Option<bool> {
        Some(Covariance::is_empty(self))
    }
    fn snapshot(&self) -> Snapshot {
        vec![
            ("len".into(), Covariance::len(self) as f64),
            ("is_empty".into(), Covariance::is_empty(self) as u8 as f64),
            ("mean_x".into(), self.mean_x()),
            ("mean_y".into(), self.mean_y()),
            ("sample_variance_x".into(), self.sample_variance_x()),
            ("population_variance_x".into(), self.population_variance_x()),
            ("sample_variance_y".into(), self.sample_variance_y()),
            ("population_variance_y".into(), self.population_variance_y()),
            ("sample_covariance".into(), self.sample_covariance()),
            ("population_covariance".into(), self.population_covariance()),
            ("pearson".into(), self.pearson()),
        ]
    }
    fn extend_val(&mut self, xs: &[(f64, f64)]) {
        self.extend(xs.iter().copied())
    }
    fn extend_ref(&mut self, xs: &[(f64, f64)]) {
        self.extend(xs.iter())
    }
    fn extend_val_unsized(&mut self, xs: &[(f64, f64)]) {
        self.extend(xs.iter().copied().filter(|p| p.0.to_bits() != 0x7ff8_dead_beef_0001))
    }
    fn extend_ref_unsized(&mut self, xs: &[(f64, f64)]) {
        self.extend(xs.iter().filter(|p| p.0.to_bits() != 0x7ff8_dead_beef_0001))
    }
}
