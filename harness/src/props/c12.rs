//! C12 — histogram construction accepts exactly the valid edge lists.
use crate::engine::*;
use crate::exact::Xf;
use crate::hist::*;
use crate::hist_dispatch;
use crate::oracle::{abs_err, to_ints};
use proptest::collection::vec;
use proptest::prelude::*;
use serde::{Deserialize, Serialize};

#[derive(Clone, Debug, Serialize, Deserialize)]
pub struct EdgeList {
    pub imp: String,
    pub len: usize,
    #[serde(with = "fvec")]
    pub list: Vec<f64>,
}

/// The outcome the property prescribes for `list`: positions 0..=LEN are scanned in order; a
/// position offends if it does not exist (NotEnoughRanges), holds NaN (NaN) or holds a value
/// smaller than its predecessor (NotSorted); the error is that of the FIRST offending position.
/// (Until round 7 of the seeded changes a list that is both too short and faulty was allowed to
/// report either error; the property speaks of "the error of the first offending position", the
/// code implements exactly that, and the lenient reading missed the seeded change C12-n.)
pub fn allowed(list: &[f64], len: usize) -> (Vec<Result<(), RangeErr>>, bool) {
    let mut out = Ok(());
    for i in 0..=len {
        if i >= list.len() {
            out = Err(RangeErr::NotEnoughRanges);
            break;
        }
        if list[i].is_nan() {
            out = Err(RangeErr::NaN);
            break;
        }
        if i > 0 && list[i] < list[i - 1] {
            out = Err(RangeErr::NotSorted);
            break;
        }
    }
    let faulty = matches!(out, Err(RangeErr::NaN) | Err(RangeErr::NotSorted));
    (vec![out], faulty)
}

fn run_ctor<H: Hist>(c: &EdgeList, o: &mut Obs) -> TestResult {
    let (ok, faulty) = allowed(&c.list, H::LEN);
    let got = match no_panic(|| H::from_ranges(&c.list)) {
        Ok(r) => r,
        Err(m) => return fail("histogram:panic", format!("from_ranges({:?}) panicked: {}", c.list, m)),
    };
    o.evals += 1;
    let shape = got.as_ref().map(|_| ()).map_err(|e| *e);
    if !ok.contains(&shape) {
        return fail("from_ranges:outcome", format!("{} LEN={}: from_ranges({:?}) -> {:?}, the property prescribes {:?}", H::IMPL, H::LEN, c.list, shape, ok));
    }
    if let Ok(h) = got {
        o.evals += 3;
        let r = h.ranges();
        if r.len() != H::LEN + 1 || r.iter().zip(&c.list).any(|(a, b)| a.to_bits() != b.to_bits()) {
            return fail("from_ranges:ranges", format!("ranges() = {:?} differs from the first LEN+1 input values {:?}", r, &c.list[..H::LEN + 1]));
        }
        if h.bins().len() != H::LEN || h.bins().iter().any(|&b| b != 0) {
            return fail("from_ranges:counts", format!("fresh histogram has counts {:?}", h.bins()));
        }
        if h.range_min().to_bits() != c.list[0].to_bits() || h.range_max().to_bits() != c.list[H::LEN].to_bits() {
            return fail("from_ranges:minmax", format!("range_min/max = {:?}/{:?} for edges {:?}", h.range_min(), h.range_max(), r));
        }
    }
    let m = c.list.len().min(H::LEN + 1);
    let head = &c.list[..m];
    let rep = head.windows(2).any(|w| w[0] == w[1]);
    let inf = head.iter().any(|x| x.is_infinite());
    let negz = head.iter().any(|x| *x == 0.0 && x.is_sign_negative());
    if faulty {
        o.class("list contains a fault in its first LEN+1 values");
    }
    if c.list.len() < H::LEN + 1 {
        o.class("too short");
    }
    if c.list.len() > H::LEN + 1 {
        o.class("extra values");
    }
    o.nontrivial = faulty || rep || inf || negz;
    Ok(())
}

pub struct FromRanges;
impl Check for FromRanges {
    type Case = EdgeList;
    fn name(&self) -> &'static str {
        "from_ranges"
    }
    fn fp(&self, c: &EdgeList, h: &mut Fp) {
        h.s(&c.imp).u(c.len as u64).fs(&c.list);
    }
    fn test(&self, c: &EdgeList, o: &mut Obs) -> TestResult {
        match hist_dispatch!(c.imp.as_str(), c.len, run_ctor, c, o) {
            Some(r) => r,
            None => {
                o.discarded = Some("implementation/LEN not available in this build");
                Ok(())
            }
        }
    }
    fn simplify(&self, c: &EdgeList) -> Vec<EdgeList> {
        let mut out = Vec::new();
        if c.list.len() > c.len + 1 {
            let mut s = c.clone();
            s.list.truncate(c.len + 1);
            out.push(s);
        }
        out
    }
}

#[derive(Clone, Debug, Serialize, Deserialize)]
pub struct CW {
    pub imp: String,
    pub len: usize,
    #[serde(with = "fstr")]
    pub s: f64,
    #[serde(with = "fstr")]
    pub e: f64,
}

fn exact_edge(start: f64, end: f64, i: u64, len: u64) -> Xf {
    let (v, e) = to_ints(&[start, end]);
    // start + i*(end-start)/len = (len*start + i*(end-start))/len
    let num = v[0].mul_u64(len).add(&v[1].sub(&v[0]).mul_u64(i));
    if num.is_zero() {
        return Xf::zero();
    }
    num.to_xf().div(&Xf::from_u64(len)).scale2(e)
}

fn run_cw<H: Hist>(c: &CW, o: &mut Obs) -> TestResult {
    let (s, e) = (c.s, c.e);
    if !(s.is_finite() && e.is_finite() && s < e && (e - s).is_finite() && (e - s) > 0.0) {
        o.discarded = Some("outside finite start < end");
        return Ok(());
    }
    // 30 orders of magnitude, no subnormal steps
    let big = s.abs().max(e.abs());
    if big > 1e16 || (e - s) / (H::LEN as f64) < 1e-290 {
        o.discarded = Some("outside the 30-decade magnitude range of the property");
        return Ok(());
    }
    let h = match no_panic(|| H::with_const_width(s, e)) {
        Ok(h) => h,
        Err(m) => return fail("histogram:panic", format!("with_const_width({:?},{:?}) panicked: {}", s, e, m)),
    };
    let rg = h.ranges();
    o.evals += 3;
    if rg.len() != H::LEN + 1 {
        return fail("const_width:len", format!("{} edges for LEN={}", rg.len(), H::LEN));
    }
    if rg[0].to_bits() != s.to_bits() {
        return fail("const_width:first", format!("first edge {:?} is not exactly start {:?}", rg[0], s));
    }
    if !rg.windows(2).all(|w| w[0] <= w[1]) {
        return fail("const_width:monotone", format!("edges are not non-decreasing: {:?}", rg));
    }
    if h.bins().iter().any(|&b| b != 0) {
        return fail("const_width:counts", "fresh histogram has non-zero counts".into());
    }
    let ulp = big * f64::EPSILON;
    for i in 0..=H::LEN {
        let ex = exact_edge(s, e, i as u64, H::LEN as u64);
        let d = abs_err(rg[i], &ex) / ulp;
        o.evals += 1;
        o.hard(d / 8.0);
        if !(d <= 8.0) {
            return fail("const_width:edge", format!("with_const_width({:?},{:?}) LEN={}: edge {} = {:?} is {:.1} ulp(max(|start|,|end|)) away from start + i*(end-start)/LEN = {:?}", s, e, H::LEN, i, rg[i], d, ex.to_f64()));
        }
    }
    o.nontrivial = true;
    if (e - s) < 1e-6 * big {
        o.class("width << magnitude");
    }
    o.classf(format!("{} LEN={}", H::IMPL, H::LEN));
    Ok(())
}

pub struct ConstWidth;
impl Check for ConstWidth {
    type Case = CW;
    fn name(&self) -> &'static str {
        "with_const_width"
    }
    fn fp(&self, c: &CW, h: &mut Fp) {
        h.s(&c.imp).u(c.len as u64).f(c.s).f(c.e);
    }
    fn test(&self, c: &CW, o: &mut Obs) -> TestResult {
        match hist_dispatch!(c.imp.as_str(), c.len, run_cw, c, o) {
            Some(r) => r,
            None => {
                o.discarded = Some("implementation/LEN not available in this build");
                Ok(())
            }
        }
    }
}

pub const LATTICE9: [f64; 9] = [f64::NEG_INFINITY, -1.0, -0.0, 0.0, 0.5, 1.0, 2.0, f64::INFINITY, f64::NAN];

pub fn run(cx: &Ctx) {
    cx.set_rule("cases = (implementation, LEN, input list) and (implementation, LEN, start, end). Exhaustive: LEN 1..4, every list of length 0..LEN+3 over the 9-value lattice {-inf,-1,-0.0,0,0.5,1,2,+inf,NaN}; generated: LEN 10 and 100, a valid prefix with one injected fault (NaN, descent, truncation) at a random position, or none, plus extra trailing values. Oracle: scan the first min(len, LEN+1) values — positions 0..=LEN in order: missing -> NotEnoughRanges, NaN -> NaN, smaller than its predecessor -> NotSorted, the first offending position decides (also for a list that is both too short and faulty), else Ok with ranges() bit-identical to the input prefix (-0.0 preserved), all counts 0, range_min/max the ends. with_const_width: finite start < end over 30 decades incl. width << magnitude: first edge bit-equal to start, edges non-decreasing, edge i within 8 ulp(max(|start|,|end|)) of the exact rational start + i(end-start)/LEN. Non-trivial = list with a fault, a repeated edge, an infinity or -0.0 (every const-width case); distinct = hash of the inputs");
    cx.extra("implementations", serde_json::json!(IMPLS));
    // exhaustive lists
    for imp in IMPLS {
        for len in 1..=4usize {
            cx.label(&format!("exhaustive-{}-LEN{}", imp, len));
            let maxl = len + 3;
            // index space: sum over l = 0..=maxl of 9^l
            let mut offs = vec![0u64];
            for l in 0..=maxl {
                offs.push(offs[l] + 9u64.pow(l as u32));
            }
            let total = *offs.last().unwrap();
            let imp_s = imp.to_string();
            cx.run_enum(
                &FromRanges,
                total,
                |i| {
                    let l = (0..=maxl).find(|&l| i < offs[l + 1]).unwrap();
                    let mut r = i - offs[l];
                    let list: Vec<f64> = (0..l)
                        .map(|_| {
                            let d = (r % 9) as usize;
                            r /= 9;
                            LATTICE9[d]
                        })
                        .collect();
                    Some(EdgeList { imp: imp_s.clone(), len, list })
                },
                &format!("every list of length 0..={} over a 9-value lattice incl. NaN, +-inf, -0.0", maxl),
            );
        }
    }
    cx.label("generated");
    let w = cx.workers.min(8);
    for imp in IMPLS {
        for &len in &[10usize, 100, 4, 1] {
            let imp = imp.to_string();
            let strat = move || {
                let imp = imp.clone();
                (super::c06::edges_strategy(len + 3), 0u8..6, any::<proptest::sample::Index>(), any::<proptest::sample::Index>()).prop_map(move |(mut list, fault, pos, cut)| {
                    let p = pos.index(list.len());
                    match fault {
                        0 => list[p] = f64::NAN,
                        1 => {
                            if p > 0 {
                                list[p] = crate::hist::next_down(list[p - 1]) - 1.0;
                            }
                        }
                        2 => list.truncate(cut.index(len + 2)),
                        3 => {
                            list[p] = f64::NAN;
                            list.truncate(cut.index(len + 4));
                        }
                        _ => {}
                    }
                    EdgeList { imp: imp.clone(), len, list }
                })
            };
            cx.run_pt(&FromRanges, cx.by(1500, 150000), w, strat, "valid prefix + one injected fault (NaN / descent / truncation / NaN+truncation) or none, extra trailing values");
        }
    }
    cx.label("generated");
    for imp in IMPLS {
        for &len in &LENS {
            let imp = imp.to_string();
            let strat = move || {
                let imp = imp.clone();
                (-15.0..15.0f64, -1.0..1.0f64, -15.0..15.0f64, 0.001..1.0f64, 0u8..4).prop_map(move |(la, na, lw, fw, mode)| {
                    let a = 10f64.powf(la) * na;
                    let wd = 10f64.powf(lw) * fw;
                    let (s, e) = match mode {
                        0 => (a, a + wd),
                        1 => (-wd, wd * fw),
                        2 => (a, a + a.abs() * 1e-12 * (1.0 + fw)),
                        _ => (0.0, wd),
                    };
                    CW { imp: imp.clone(), len, s, e }
                })
            };
            cx.run_pt(&ConstWidth, cx.by(1500, 300000), w, strat, "finite start < end over 30 decades; four placements incl. width 1e-12 of the magnitude");
        }
    }
}

pub fn replay(check: &str, case: &serde_json::Value) -> Option<Result<(), String>> {
    match check {
        "from_ranges" => Some(replay_case(&FromRanges, case)),
        "with_const_width" => Some(replay_case(&ConstWidth, case)),
        _ => None,
    }
}
