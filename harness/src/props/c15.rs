//! C15 — Quantile estimates stay inside the data range and bookkeeping is exact.
use super::c05::{alphabet_stream, exhaustive_plan, markers, stream_strategy, QStream, P_GRID};
use crate::engine::*;
use average::{Estimate, Quantile};
use proptest::prelude::*;
use serde::{Deserialize, Serialize};

pub struct Book;
impl Check for Book {
    type Case = QStream;
    fn name(&self) -> &'static str {
        "range_and_bookkeeping"
    }
    fn fp(&self, c: &QStream, h: &mut Fp) {
        h.f(c.p).fs(&c.xs);
    }
    fn test(&self, c: &QStream, o: &mut Obs) -> TestResult {
        // Known finding K2: when the spread of the data (max - min) exceeds f64::MAX the
        // marker-height differences of the P-square formulas overflow and the estimate
        // becomes +-inf. Failures in that regime carry their own signature.
        let (lo, hi) = c.xs.iter().fold((f64::INFINITY, f64::NEG_INFINITY), |(l, h), &x| (l.min(x), h.max(x)));
        let spread_overflow = c.xs.len() >= 2 && (hi - lo).is_infinite();
        let mut at = 0usize;
        match self.test_inner(c, o, &mut at) {
            // K2 concerns the P-square phase only: with fewer than five observations the code is exact
            Err(f) if spread_overflow && at >= 5 && f.sig.starts_with("quantile:") => Err(Fail { sig: "quantile:spread-overflow".into(), msg: format!("{} (the spread max - min of the stream overflows f64)", f.msg) }),
            r => r,
        }
    }
}
impl Book {
    fn test_inner(&self, c: &QStream, o: &mut Obs, at: &mut usize) -> TestResult {
        if !(c.p >= 0.0 && c.p <= 1.0) || c.xs.iter().any(|x| !x.is_finite()) {
            o.discarded = Some("p outside [0,1] or non-finite observation");
            return Ok(());
        }
        let mut q = Quantile::new(c.p);
        let (mut lo, mut hi) = (f64::INFINITY, f64::NEG_INFINITY);
        let mut observable = true;
        let chk_p = |q: &Quantile, o: &mut Obs| -> TestResult {
            o.evals += 1;
            let ok = if c.p == 0.0 { q.p() == 0.0 } else { q.p().to_bits() == c.p.to_bits() };
            if !ok {
                return fail("quantile:p", format!("p() = {:?} but the estimator was constructed with p = {:?}", q.p(), c.p));
            }
            Ok(())
        };
        // empty estimator
        o.evals += 3;
        if q.len() != 0 || !q.is_empty() {
            return fail("quantile:len", "fresh estimator: len() != 0 or !is_empty()".into());
        }
        if !q.quantile().is_nan() {
            return fail("quantile:empty", format!("quantile() of the empty estimator = {:?}, documented NaN", q.quantile()));
        }
        chk_p(&q, o)?;
        let mut ties = 0usize;
        let mut new_ext = 0usize;
        for (i, &x) in c.xs.iter().enumerate() {
            if i >= 5 && (x < lo || x > hi) {
                new_ext += 1;
            }
            if i > 0 && c.xs[..i].contains(&x) && i < 64 {
                ties += 1;
            }
            q.add(x);
            lo = lo.min(x);
            hi = hi.max(x);
            let n = (i + 1) as u64;
            *at = i + 1;
            o.evals += 3;
            if q.len() != n {
                return fail("quantile:len", format!("len() = {} after {} observations", q.len(), n));
            }
            if q.is_empty() {
                return fail("quantile:len", format!("is_empty() after {} observations", n));
            }
            let v = q.quantile();
            if !(v >= lo && v <= hi) {
                return fail("quantile:range", format!("after {} observations quantile() = {:?} lies outside the data range [{:?}, {:?}] (p = {:?})", n, v, lo, hi, c.p));
            }
            if n >= 5 && observable {
                match markers(&q) {
                    None => {
                        observable = false;
                        o.class("marker state not observable");
                    }
                    Some((qs, _)) => {
                        o.evals += 1;
                        if !(qs.windows(2).all(|w| w[0] <= w[1]) && qs[0] == lo && qs[4] == hi) {
                            return fail("quantile:markers", format!("after {} observations marker heights {:?} are not non-decreasing from the running minimum {:?} to the running maximum {:?}", n, qs, lo, hi));
                        }
                    }
                }
            }
        }
        chk_p(&q, o)?;
        let n = c.xs.len();
        let constant = n >= 2 && lo == hi;
        let reversed = n >= 6 && c.xs.windows(2).all(|w| w[0] > w[1]);
        if constant {
            o.class("constant stream");
        }
        if reversed {
            o.class("strictly decreasing stream");
        }
        if ties * 2 >= n.min(64) && n >= 6 {
            o.class(">= 50% ties");
        }
        if new_ext > 0 {
            o.class("new extremes after initialisation");
        }
        o.nontrivial = n >= 6 && (constant || reversed || ties * 2 >= n.min(64) || new_ext > 0);
        Ok(())
    }
}

#[derive(Clone, Debug, Serialize, Deserialize)]
pub struct PArg {
    #[serde(with = "fstr")]
    pub p: f64,
}
pub struct NewPanics;
impl Check for NewPanics {
    type Case = PArg;
    fn name(&self) -> &'static str {
        "constructor_domain"
    }
    fn fp(&self, c: &PArg, h: &mut Fp) {
        h.f(c.p);
    }
    fn test(&self, c: &PArg, o: &mut Obs) -> TestResult {
        let r = no_panic(|| Quantile::new(c.p));
        let valid = c.p >= 0.0 && c.p <= 1.0;
        o.evals += 1;
        o.nontrivial = true;
        o.class(if valid { "valid p" } else { "invalid p" });
        match (valid, r) {
            (true, Ok(q)) => {
                let ok = if c.p == 0.0 { q.p() == 0.0 } else { q.p().to_bits() == c.p.to_bits() };
                if !ok {
                    return fail("quantile:p", format!("p() = {:?} for p = {:?}", q.p(), c.p));
                }
                Ok(())
            }
            (true, Err(m)) => fail("quantile:new-panics-on-valid-p", format!("Quantile::new({:?}) panicked: {}", c.p, m)),
            (false, Ok(_)) => fail("quantile:new-accepts-invalid-p", format!("Quantile::new({:?}) did not panic", c.p)),
            (false, Err(_)) => Ok(()),
        }
    }
}

/// One long uninterrupted stream: the invariants at power-of-two checkpoints and at the end. Millions of
/// observations are needed to reach arithmetic that depends on the marker positions (products of
/// position gaps, accumulated desired positions).
#[derive(Clone, Debug, Serialize, Deserialize)]
pub struct Long {
    #[serde(with = "fstr")]
    pub p: f64,
    pub n: u64,
    /// 0 increasing ramp, 1 decreasing ramp, 2 pseudo-random uniform, 3 four-value alphabet
    pub kind: u8,
    pub seed: u64,
}
pub struct LongStream;
impl Check for LongStream {
    type Case = Long;
    fn name(&self) -> &'static str {
        "long_stream"
    }
    fn fp(&self, c: &Long, h: &mut Fp) {
        h.f(c.p).u(c.n).u(c.kind as u64).u(c.seed);
    }
    fn test(&self, c: &Long, o: &mut Obs) -> TestResult {
        if !(c.p >= 0.0 && c.p <= 1.0) || c.n > 200_000_000 {
            o.discarded = Some("p outside [0,1] or stream longer than 2e8");
            return Ok(());
        }
        o.nontrivial = c.n >= 1_000_000;
        o.classf(format!("n={}M", c.n / 1_000_000));
        let r = no_panic(|| -> TestResult {
            let mut q = Quantile::new(c.p);
            let mut r = Sm(c.seed + 1);
            let (mut lo, mut hi) = (f64::INFINITY, f64::NEG_INFINITY);
            let nf = c.n as f64;
            for i in 0..c.n {
                let x = match c.kind % 4 {
                    0 => i as f64 / nf,
                    1 => (c.n - i) as f64 / nf,
                    2 => r.f(),
                    _ => [0.0, 1.0, 3.0, 7.0][(r.below(4)) as usize],
                };
                q.add(x);
                lo = lo.min(x);
                hi = hi.max(x);
                let k = i + 1;
                if k == c.n || (k >= 1024 && k.is_power_of_two()) {
                    o.evals += 3;
                    if q.len() != k {
                        return fail("quantile:len", format!("len() = {} after {} observations", q.len(), k));
                    }
                    let v = q.quantile();
                    if !(v >= lo && v <= hi) {
                        return fail("quantile:range", format!("after {} observations quantile() = {:?} lies outside [{:?}, {:?}] (p = {:?})", k, v, lo, hi, c.p));
                    }
                    if let Some((qs, _)) = markers(&q) {
                        if qs.windows(2).any(|w| !(w[0] <= w[1])) || qs[0] != lo || qs[4] != hi {
                            return fail("quantile:markers", format!("after {} observations marker heights {:?} are not non-decreasing from the minimum {:?} to the maximum {:?}", k, qs, lo, hi));
                        }
                    }
                }
            }
            Ok(())
        });
        match r {
            Ok(r) => r,
            Err(m) => fail("panic", format!("a stream of {} finite observations in [0, 7] panicked: {}", c.n, m)),
        }
    }
}

pub fn run(cx: &Ctx) {
    cx.set_rule("cases = the C05 stream generators (exhaustive small-alphabet streams, 10 kinds of random streams, all p) — after EVERY observation: len() == i, is_empty() == (i == 0), p() equal to the constructor argument (bit-equal when non-zero), quantile() NaN iff empty else within [running min, running max], and from the fifth observation the serialised marker heights non-decreasing with first = running min and last = running max; plus six single streams of 3.7 to 7.2 million observations (thorough x4) with the invariants at power-of-two checkpoints; plus Quantile::new over valid p (0, 1, subnormals, random) and invalid p (negative, > 1, +-inf, NaN), which must panic. Non-trivial = stream of length >= 6 that is constant, strictly decreasing, has >= 50% ties or brings new extremes after initialisation; distinct = hash of (p bits, stream bits)");
    cx.assume("marker state is read from the serde representation (field q); if it is not present the marker invariant is skipped and counted");
    for (alpha, len) in exhaustive_plan(cx) {
        cx.label(&format!("exhaustive-{}-values{}", alpha.len(), if alpha.iter().any(|a| a.to_bits() == (-0.0f64).to_bits()) { "-signed-zeros" } else { "" }));
        let np = P_GRID.len() as u64;
        let total = (alpha.len() as u64).pow(len as u32) * np;
        cx.run_enum(&Book, total, |i| Some(QStream { p: P_GRID[(i % np) as usize], xs: alphabet_stream(alpha, len, i / np) }), &format!("all streams of length {} over a {}-value alphabet x 8 values of p", len, alpha.len()));
    }
    cx.label("generated");
    let max_len = cx.by(2000, 20000);
    cx.run_pt(&Book, cx.by(2500, 25000), cx.workers, move || stream_strategy(max_len), "random streams of 10 kinds, length 5..=20000 (quick 2000)");
    let short = || {
        (super::c05::p_strategy(), proptest::collection::vec(prop_oneof![4 => -100.0..100.0f64, 1 => proptest::sample::select(vec![f64::MAX, f64::MIN, 1e308, 1.5e308, -1e308, -1.7e308, 5e-324, -5e-324, 0.0]), 1 => (-300.0..308.0f64, any::<bool>()).prop_map(|(e, s)| if s { -10f64.powf(e) } else { 10f64.powf(e) }), 1 => (300.0..308.25f64, any::<bool>()).prop_map(|(e, s)| { let v = 10f64.powf(e).min(f64::MAX); if s { -v } else { v } })], 0..12)).prop_map(|(p, xs)| QStream { p, xs })
    };
    cx.label("generated-short");
    cx.run_pt(&Book, cx.by(3000, 30000), cx.workers, short, "streams of length 0..11 incl. extreme magnitudes (up to f64::MAX, subnormals)");
    cx.label("fixed");
    cx.run_list(&Book, vec![
        // reproducer of known finding K2 (see KNOWN_FINDINGS.txt)
        QStream { p: 0.5, xs: vec![-f64::MAX, f64::MAX, 0.0, 0.0, 0.0, -71.0, -62.0, 0.0, 0.0, 0.0, 0.0] },
        QStream { p: 0.5, xs: vec![1e308, 1.5e308] },
        QStream { p: 0.25, xs: vec![f64::MAX, f64::MAX, f64::MAX, f64::MAX] },
    ], "K2 reproducer; huge same-sign observations in the <5 phase");
    cx.label("long");
    let m = cx.by(1, 4) as u64;
    cx.run_list(&LongStream, vec![
        Long { p: 1.0, n: 3_700_000 * m, kind: 0, seed: 1 },
        Long { p: 0.0, n: 3_700_000 * m, kind: 1, seed: 2 },
        Long { p: 0.5, n: 7_200_000 * m, kind: 2, seed: 3 },
        Long { p: 0.9, n: 5_000_000 * m, kind: 2, seed: 4 },
        Long { p: 0.25, n: 5_000_000 * m, kind: 3, seed: 5 },
        Long { p: 0.99, n: 4_000_000 * m, kind: 0, seed: 6 },
    ], "single streams of 3.7 to 7.2 million observations (thorough x4): ramps, uniform noise, a four-value alphabet; invariants at power-of-two checkpoints and at the end");
    let mut ps: Vec<PArg> = [0.0, -0.0, 1.0, 0.5, 5e-324, f64::MIN_POSITIVE, 1.0 - f64::EPSILON / 2.0, -5e-324, -1e-300, 1.0 + f64::EPSILON, 2.0, -1.0, f64::INFINITY, f64::NEG_INFINITY, f64::NAN, 1e300, -1e300].iter().map(|&p| PArg { p }).collect();
    ps.push(PArg { p: f64::from_bits(0x7ff8_0000_0000_0001) });
    cx.run_list(&NewPanics, ps, "boundary and invalid constructor arguments");
    cx.label("generated");
    cx.run_pt(&NewPanics, cx.by(2000, 20000), cx.workers, || prop_oneof![1 => 0.0..=1.0f64, 1 => any::<f64>()].prop_map(|p| PArg { p }), "uniform p in [0,1] and arbitrary f64 bit patterns");
}

pub fn replay(check: &str, case: &serde_json::Value) -> Option<Result<(), String>> {
    match check {
        "range_and_bookkeeping" => Some(replay_case(&Book, case)),
        "constructor_domain" => Some(replay_case(&NewPanics, case)),
        "long_stream" => Some(replay_case(&LongStream, case)),
        _ => None,
    }
}
