//! C04 — define_moments! estimators of any order equal the exact central moments.
use super::c01::{climb_starts, mutate_xs};
use super::common::*;
use crate::engine::*;
use crate::exact::Xf;
use crate::gen;
use crate::oracle::*;
use crate::types::*;
use average::{Kurtosis, Mean, Moments4, Skewness, Variance};
use proptest::prelude::*;
use std::marker::PhantomData;

fn rule(ex: &Exact) -> bool {
    ex.n >= 3 && !ex.zero_spread
}

macro_rules! stream {
    ($f:ident, $T:ty, $name:expr) => {
        pub fn $f() -> Stream<$T> {
            Stream { name: $name, min_n: 1, rule, _p: PhantomData }
        }
    };
}
stream!(s4, Moments4, "moments4_stream");
stream!(s5, M5, "moments5_stream");
stream!(s6, M6, "moments6_stream");
stream!(s7, M7, "moments7_stream");
stream!(s8, M8, "moments8_stream");
stream!(s9, M9, "moments9_stream");
stream!(s10, M10, "moments10_stream");

/// Rescale (by an exact power of two) so that the order-N arithmetic
/// preconditions hold: n*M^N < 1e300 and sigma^N*u > 1e-290 (DESIGN.md 4.3).
/// mode 1: scale (by a power of two) up to the top of the order-N domain (n*M^N just below 1e299);
/// mode 2: down to its bottom (sigma^N*u just above 1e-290); mode 0: only if outside.
pub fn rescale_to_edge(xs: &[f64], order: usize, mode: u8) -> Vec<f64> {
    let base = rescale_for_order(xs, order);
    if mode == 0 || base.is_empty() {
        return base;
    }
    let n = base.len() as f64;
    let m = base.iter().fold(0.0f64, |a, x| a.max(x.abs()));
    let mean = base.iter().sum::<f64>() / n;
    let sd = (base.iter().map(|x| (x - mean) * (x - mean)).sum::<f64>() / n).sqrt();
    if m == 0.0 || sd == 0.0 {
        return base;
    }
    let hi = ((298.5 - n.log10()) / order as f64).min(29.9);
    let lo = -(290.0 - 16.0) / order as f64 + 0.6;
    let shift = if mode == 1 { hi - m.log10() } else { lo - sd.log10() };
    // stay inside the other bound and inside the C01 value domain
    let shift = if mode == 1 { shift } else { shift.max(-29.5 - base.iter().filter(|x| **x != 0.0).fold(f64::INFINITY, |a, x| a.min(x.abs())).log10()) };
    let k = (shift * std::f64::consts::LOG2_10).floor() as i32;
    let f = 2f64.powi(k.clamp(-1000, 1000));
    let out: Vec<f64> = base.iter().map(|x| x * f).collect();
    if out.iter().all(|x| x.is_finite()) { out } else { base }
}

pub fn rescale_for_order(xs: &[f64], order: usize) -> Vec<f64> {
    let n = xs.len() as f64;
    if xs.is_empty() {
        return vec![];
    }
    let m = xs.iter().fold(0.0f64, |a, x| a.max(x.abs()));
    if m == 0.0 {
        return xs.to_vec();
    }
    let mean = xs.iter().sum::<f64>() / n;
    let sd = (xs.iter().map(|x| (x - mean) * (x - mean)).sum::<f64>() / n).sqrt();
    let hi = ((299.0 - n.log10()) / order as f64).min(30.0); // log10 of allowed M
    let lo = -(290.0 - 16.0) / order as f64 + 0.5; // log10 of required sigma
    let lm = m.log10();
    let mut shift = 0.0f64; // log10 factor
    if lm > hi {
        shift = hi - lm;
    }
    if sd > 0.0 && sd.log10() + shift < lo {
        shift = lo - sd.log10();
        if lm + shift > hi {
            shift = hi - lm; // impossible to satisfy both: the gate will discard
        }
    }
    if shift == 0.0 {
        return xs.to_vec();
    }
    let k = (shift * std::f64::consts::LOG2_10).round() as i32 + if shift < 0.0 { -1 } else { 1 };
    let f = 2f64.powi(k.clamp(-900, 900));
    xs.iter().map(|x| x * f).collect()
}

/// Cross-agreement of Moments4 with Mean/Variance/Skewness/Kurtosis fed the
/// same data: differences bounded by the sum of the two envelopes.
pub struct Cross;
impl Check for Cross {
    type Case = Xs;
    fn name(&self) -> &'static str {
        "cross_agreement"
    }
    fn fp(&self, c: &Xs, h: &mut Fp) {
        h.fs(&c.xs);
    }
    fn test(&self, c: &Xs, o: &mut Obs) -> TestResult {
        let ex = match c01_gate(&c.xs, 4, 2, o) {
            Some(e) => e,
            None => return Ok(()),
        };
        o.nontrivial = ex.n >= 3;
        let m: Moments4 = feed(&c.xs);
        let m6: M6 = feed(&c.xs);
        let a: Mean = feed(&c.xs);
        let v: Variance = feed(&c.xs);
        let s: Skewness = feed(&c.xs);
        let k: Kurtosis = feed(&c.xs);
        let r = ex.nku();
        let cmp = |o: &mut Obs, what: &str, x: f64, y: f64, env: f64| -> TestResult {
            o.evals += 1;
            if !((x - y).abs() <= 2.0 * env) {
                return fail(&format!("cross:{}", what), format!("{}: {:e} vs {:e} differ by {:e} > 2 envelopes ({:e})", what, x, y, (x - y).abs(), 2.0 * env));
            }
            Ok(())
        };
        cmp(o, "Moments4::mean vs Mean::mean", m.mean(), a.mean(), ex.env_mean())?;
        let pv = ex.pop_var().to_f64();
        cmp(o, "Moments4::central_moment(2) vs Variance::population_variance", m.central_moment(2), v.population_variance(), 16.0 * r * pv)?;
        cmp(o, "Moments4::sample_variance vs Variance::sample_variance", m.sample_variance(), v.sample_variance(), 16.0 * r * ex.sample_var().to_f64())?;
        cmp(o, "Moments4::standardized_moment(3) vs Skewness::skewness", m.standardized_moment(3), s.skewness(), 32.0 * r * ex.beta(3))?;
        cmp(o, "Moments4::standardized_moment(4)-3 vs Kurtosis::kurtosis", m.standardized_moment(4) - 3.0, k.kurtosis(), 64.0 * r * ex.beta(4))?;
        if order_ok(&ex, 6) {
            cmp(o, "M6::central_moment(4) vs Moments4::central_moment(4)", m6.central_moment(4), m.central_moment(4), 64.0 * r * ex.abs_central(4).to_f64())?;
            cmp(o, "M6::central_moment(3) vs Moments4::central_moment(3)", m6.central_moment(3), m.central_moment(3), 32.0 * r * ex.abs_central(3).to_f64())?;
        }
        let _ = Xf::zero();
        Ok(())
    }
}

pub fn run(cx: &Ctx) {
    cx.set_rule("cases = data sets over the C01 domain rescaled by an exact power of two so that n*max|x|^N < 1e300 and rho_N*u > 1e-290 (one in five pushed to the top of that domain, one in five to its bottom), fed one observation at a time to define_moments! types of order N in {4 (crate export Moments4), 5, 6, 7, 8, 9, 10}; len, mean, central_moment(p) and standardized_moment(p) for every p <= N, sample_variance, sample_skewness and sample_excess_kurtosis judged against exact central moments (scale rho_p, constant 2^(p+2)); the fixed values central_moment(0)=1, (1)=0, standardized_moment(0)=n, (1)=0, (2)=1 bit-for-bit; plus cross-agreement with Mean/Variance/Skewness/Kurtosis within two envelopes. Non-trivial = n >= 3 with non-zero spread; distinct = hash of (check, sequence bits)");
    cx.assume("exact oracle and envelopes as in C01; data violating the order-N arithmetic preconditions are discarded and counted");
    let w = cx.workers;
    let cases = cx.by(1000, 15000);
    let (mid, big) = (cx.by(300, 3000), cx.by(1500, 3000));
    macro_rules! go {
        ($chk:expr, $N:expr) => {{
            let strat = move || (gen::dataset(1, mid, big, 11.9), prop_oneof![3 => Just(0u8), 1 => Just(1u8), 1 => Just(2u8)]).prop_map(|(xs, mode)| Xs { xs: rescale_to_edge(&xs, $N, mode) });
            cx.run_pt(&$chk, cases, w, strat, &format!("order {}: n <= {}, kappa <= 1e12, every p <= {}", $N, big, $N));
        }};
    }
    cx.label("generated");
    go!(s4(), 4);
    go!(s5(), 5);
    go!(s6(), 6);
    go!(s7(), 7);
    go!(s8(), 8);
    go!(s9(), 9);
    go!(s10(), 10);
    let strat = move || gen::dataset(2, mid, big, 11.9).prop_map(|xs| Xs { xs: rescale_for_order(&xs, 6) });
    cx.run_pt(&Cross, cases, w, strat, "Moments4/M6 vs Mean, Variance, Skewness, Kurtosis");
    if cx.thorough() {
        let starts = |salt: u64, n: usize| climb_starts(cx, 128, salt).into_iter().map(|x| Xs { xs: rescale_for_order(&x.xs, n) }).collect::<Vec<_>>();
        cx.label("search");
        cx.run_climb(&s6(), starts(0xC046, 6), 5000, mutate_xs, "hill-climb 128 x 5000");
        cx.run_climb(&s10(), starts(0xC04A, 10), 5000, mutate_xs, "hill-climb 128 x 5000");
    }
}

pub fn replay(check: &str, case: &serde_json::Value) -> Option<Result<(), String>> {
    match check {
        "moments4_stream" => Some(replay_case(&s4(), case)),
        "moments5_stream" => Some(replay_case(&s5(), case)),
        "moments6_stream" => Some(replay_case(&s6(), case)),
        "moments7_stream" => Some(replay_case(&s7(), case)),
        "moments8_stream" => Some(replay_case(&s8(), case)),
        "moments9_stream" => Some(replay_case(&s9(), case)),
        "moments10_stream" => Some(replay_case(&s10(), case)),
        "cross_agreement" => Some(replay_case(&Cross, case)),
        _ => None,
    }
}
