//! C09 — Covariance reports exact means, variances, covariance and Pearson correlation.
use super::c08::{build_tree, WCase};
use super::common::*;
use crate::engine::*;
use crate::exact::Xf;
use crate::gen;
use crate::oracle::*;
use average::Covariance;
use proptest::collection::vec;
use proptest::prelude::*;

pub type PCase = WCase; // pairs are (x, y) here

fn judge_cov(tag: &str, cv: &Covariance, ep: &ExactPairs, o: &mut Obs) -> TestResult {
    let (ex, ey) = (&ep.x, &ep.y);
    let n = ex.nf();
    judge_eq_u64(o, &format!("{}Covariance::len", tag), cv.len(), ex.n)?;
    judge(o, &format!("{}Covariance::mean_x", tag), cv.mean_x(), &ex.mean, ex.env_mean())?;
    judge(o, &format!("{}Covariance::mean_y", tag), cv.mean_y(), &ey.mean, ey.env_mean())?;
    if ex.n < 2 {
        return Ok(());
    }
    let kap = ex.kappa().max(ey.kappa());
    let r = 16.0 * n * kap * U;
    let nx = ex.nx();
    let nm1 = Xf::from_u64(ex.n - 1);
    for (nm, got, e) in [
        ("population_variance_x", cv.population_variance_x(), ex.pop_var()),
        ("sample_variance_x", cv.sample_variance_x(), ex.sample_var()),
        ("population_variance_y", cv.population_variance_y(), ey.pop_var()),
        ("sample_variance_y", cv.sample_variance_y(), ey.sample_var()),
    ] {
        judge(o, &format!("{}Covariance::{}", tag, nm), got, &e, r * e.to_f64())?;
    }
    let sc = ex.csum[2].mul(&ey.csum[2]).sqrt(); // sqrt(Sxx*Syy)
    let pc = ep.sxy.div(&nx);
    judge(o, &format!("{}Covariance::population_covariance", tag), cv.population_covariance(), &pc, r * sc.div(&nx).to_f64())?;
    let scov = ep.sxy.div(&nm1);
    judge(o, &format!("{}Covariance::sample_covariance", tag), cv.sample_covariance(), &scov, r * sc.div(&nm1).to_f64())?;
    let rho = ep.sxy.div(&sc);
    judge(o, &format!("{}Covariance::pearson", tag), cv.pearson(), &rho, r)?;
    o.evals += 1;
    if !(cv.pearson().abs() <= 1.0 + r) {
        return fail("covariance:pearson-range", format!("{}|pearson| = {:e} exceeds 1 by more than the envelope {:e}", tag, cv.pearson().abs(), r));
    }
    Ok(())
}

pub struct Cov;
impl Check for Cov {
    type Case = PCase;
    fn name(&self) -> &'static str {
        "covariance_statistics"
    }
    fn fp(&self, c: &PCase, h: &mut Fp) {
        for p in &c.pairs {
            h.f(p.0).f(p.1);
        }
        h.us(&c.cuts).us(&c.merges).u(c.path as u64);
    }
    fn test(&self, c: &PCase, o: &mut Obs) -> TestResult {
        let xs: Vec<f64> = c.pairs.iter().map(|p| p.0).collect();
        let ys: Vec<f64> = c.pairs.iter().map(|p| p.1).collect();
        if xs.is_empty() || !in_c01_domain(&xs) || !in_c01_domain(&ys) {
            o.discarded = Some("outside the C01 value domain");
            return Ok(());
        }
        let ep = exact_pairs(&c.pairs);
        if xs.len() >= 2 {
            if ep.x.zero_spread || ep.y.zero_spread {
                o.discarded = Some("zero spread in a coordinate (constant data belong to C16)");
                return Ok(());
            }
            if !(ep.x.kappa() <= 1e12 && ep.y.kappa() <= 1e12) {
                o.discarded = Some("kappa > 1e12");
                return Ok(());
            }
        }
        let cv: Covariance = build_tree(&c.pairs, &c.cuts, &c.merges, c.path);
        judge_cov("", &cv, &ep, o)?;
        // swap relation: the estimator of (y, x) against the swapped exact values
        let sw: Vec<(f64, f64)> = c.pairs.iter().map(|p| (p.1, p.0)).collect();
        let cs: Covariance = build_tree(&sw, &c.cuts, &c.merges, c.path);
        let eps = ExactPairs { x: exact_moments(&ys, 2), y: exact_moments(&xs, 2), sxy: ep.sxy };
        judge_cov("(x and y swapped) ", &cs, &eps, o)?;
        if xs.len() >= 2 {
            let rho = ep.sxy.div(&ep.x.csum[2].mul(&ep.y.csum[2]).sqrt()).to_f64();
            o.class(if rho.abs() > 1.0 - 1e-12 { "|rho| = 1 (collinear)" } else if rho.abs() < 0.1 { "|rho| < 0.1" } else { "0.1 <= |rho| < 1" });
            o.classf(kappa_bucket(ep.x.kappa().max(ep.y.kappa())));
            o.nontrivial = true;
        }
        if !c.cuts.is_empty() {
            o.class("merged");
        }
        o.class(n_bucket(xs.len()));
        Ok(())
    }
    fn simplify(&self, c: &PCase) -> Vec<PCase> {
        let mut out = Vec::new();
        if !c.cuts.is_empty() {
            out.push(WCase { pairs: c.pairs.clone(), cuts: vec![], merges: vec![], path: c.path });
        }
        if c.pairs.len() <= 40 {
            for i in 0..c.pairs.len() {
                let mut p = c.pairs.clone();
                p.remove(i);
                let cuts = c.cuts.iter().map(|&k| if k > i { k - 1 } else { k }).collect();
                out.push(WCase { pairs: p, cuts, merges: c.merges.clone(), path: c.path });
            }
        }
        let r: Vec<(f64, f64)> = c.pairs.iter().map(|p| (round_sig(p.0, 3), round_sig(p.1, 3))).collect();
        if r != c.pairs {
            out.push(WCase { pairs: r, cuts: c.cuts.clone(), merges: c.merges.clone(), path: c.path });
        }
        out
    }
}

pub fn pcase_strategy(mid: usize, big: usize) -> impl Strategy<Value = PCase> {
    (
        gen::raw_vec(1, mid, big),
        vec(0.0..1.0f64, 1..64),
        gen::placement(11.9),
        gen::placement(11.9),
        0u8..5,
        (-2.0..2.0f64, -2.0..2.0f64),
        prop_oneof![2 => Just(None), 3 => (gen::cut_mode(), gen::tree_mode()).prop_map(Some)],
        0u8..super::c08::PATHS,
        0u8..3,
    )
        .prop_map(|(raw, noise_raw, plx, ply, mode, (a, b), tree, path, ord)| {
            let n = raw.len();
            let xr = gen::shape_values(plx.shape, &raw);
            let nz: Vec<f64> = (0..n).map(|i| gen::probit(noise_raw[(i * 7 + 3) % noise_raw.len()] * 0.999 + 0.0005 * ((i % 2) as f64))).collect();
            let yr: Vec<f64> = match mode {
                0 => xr.iter().map(|x| 2.0 * x).collect(),
                1 => xr.iter().map(|x| -0.5 * x).collect(),
                2 => gen::shape_values(ply.shape, &noise_raw.iter().cycle().take(n).copied().collect::<Vec<_>>()),
                _ => xr.iter().zip(&nz).map(|(x, z)| a * x + b * z).collect(),
            };
            let xs = gen::place(&xr, plx.ls, plx.lk, plx.neg);
            let ys = gen::place(&yr, ply.ls, ply.lk, ply.neg);
            let mut idx: Vec<usize> = (0..n).collect();
            match ord {
                1 => idx.sort_by(|&i, &j| xs[i].partial_cmp(&xs[j]).unwrap()),
                2 => idx.sort_by(|&i, &j| ys[j].partial_cmp(&ys[i]).unwrap()),
                _ => {}
            }
            let pairs: Vec<(f64, f64)> = idx.iter().map(|&i| (xs[i], ys[i])).collect();
            let (cuts, merges) = match tree {
                None => (vec![], vec![]),
                Some((cm, tm)) => {
                    let cuts = gen::make_cuts(&cm, n);
                    let merges = gen::make_merges(&tm, cuts.len() + 1);
                    (cuts, merges)
                }
            };
            WCase { pairs, cuts, merges, path }
        })
}

pub fn fixed() -> Vec<PCase> {
    let mk = |p: &[(f64, f64)], cuts: &[usize]| WCase { pairs: p.to_vec(), cuts: cuts.to_vec(), merges: vec![0; cuts.len()], path: 0 };
    vec![
        mk(&[(1., 5.), (2., 4.), (3., 3.), (4., 2.), (5., 1.)], &[]),
        mk(&[(1., 2.), (3., 4.), (5., 6.), (7., 8.), (9., 10.)], &[3]),
        mk(&[(1e9 + 1., -1e9 + 2.), (1e9 + 2., -1e9 + 4.), (1e9 + 4., -1e9 + 3.)], &[1, 2]),
        mk(&[(3., 7.)], &[]),
    ]
}

pub fn run(cx: &Ctx) {
    cx.set_rule("cases = pairs (x, y) with y = a*x + b*noise in modes exactly collinear (rho = +-1), independent, mixed; x and y placed independently (scale 10^U(-15,15), offset up to 1e12 spreads); built by add loop, collect/extend by value and by reference, and chunking + merge tree; len exact, means, the four variances, both covariances and pearson judged against exact big-integer co-moments (DESIGN.md 4.1, kappa = max(kappa_x, kappa_y); covariance scale sqrt(Sxx*Syy); pearson scale 1 and |pearson| <= 1 + envelope); the estimator fed the swapped pairs is judged against the swapped exact values. Non-trivial = n >= 2 with non-zero spread in both coordinates; distinct = hash of (pairs, cuts, merge order, path)");
    cx.assume("exact oracle as in C01");
    cx.label("fixed");
    cx.run_list(&Cov, fixed(), "doc examples and an offset triple");
    cx.label("generated");
    let big = cx.by(3000, 30000);
    cx.run_pt(&Cov, cx.by(3000, 30000), cx.workers, move || pcase_strategy(3000, big), "n 1..=30000 (quick 3000), 4 correlation modes x independent placements x 11 ingestion paths (3 of them through iterators without a length) x merge trees");
}

pub fn replay(check: &str, case: &serde_json::Value) -> Option<Result<(), String>> {
    match check {
        "covariance_statistics" => Some(replay_case(&Cov, case)),
        _ => None,
    }
}
