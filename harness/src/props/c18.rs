//! C18 — a serde round trip at any point is invisible to the rest of the computation.
use super::c11::{first_value, second_value};
use crate::engine::*;
use crate::est::*;
use crate::est_dispatch;
use crate::types::snap_diff;
use proptest::collection::vec;
use proptest::prelude::*;
use serde::{Deserialize, Serialize};

#[derive(Clone, Debug, Serialize, Deserialize)]
pub enum SOp {
    Add {
        #[serde(with = "fstr")]
        x: f64,
        #[serde(with = "fstr")]
        y: f64,
    },
    /// merge an estimator built from these observations
    Merge {
        #[serde(with = "fpairs")]
        vals: Vec<(f64, f64)>,
    },
    /// merge the estimator with a clone of itself `times` times (doubles the count each time:
    /// the way sample sizes beyond 2^53 are reached)
    SelfMerge { times: u8 },
    /// `n` pseudo-random observations in (-5, 5) (second component in (0.5, 1.5)) from a fixed generator:
    /// a compact way to put the checkpoint late in a long history
    Bulk { n: u32, seed: u32 },
}

#[derive(Clone, Debug, Serialize, Deserialize)]
pub struct S18 {
    pub ty: String,
    pub ops: Vec<SOp>,
    /// the round trip happens after ops[..checkpoint]
    pub checkpoint: usize,
}

fn apply<T: Est>(t: &mut T, op: &SOp) {
    match op {
        SOp::Add { x, y } => t.add2(*x, *y),
        SOp::Bulk { n, seed } => {
            let mut r = Sm(*seed as u64 + 1);
            for _ in 0..*n {
                let x = (r.f() - 0.5) * 10.0;
                let y = 0.5 + r.f();
                t.add2(x, y);
            }
        }
        SOp::SelfMerge { times } => {
            if T::HAS_MERGE {
                for _ in 0..*times {
                    // stay clear of u64 overflow of the count (outside the property)
                    if t.len_().map_or(false, |l| l > 1 << 61) {
                        break;
                    }
                    let c = t.clone();
                    t.merge_(&c);
                }
            }
        }
        SOp::Merge { vals } => {
            if T::HAS_MERGE {
                let mut o = T::new_();
                for &(x, y) in vals {
                    o.add2(x, y);
                }
                t.merge_(&o);
            } else {
                for &(x, y) in vals {
                    t.add2(x, y);
                }
            }
        }
    }
}

/// the sorted multiset of JSON number tokens of a document
fn number_tokens(s: &str) -> Vec<String> {
    let mut out = Vec::new();
    let mut cur = String::new();
    let mut in_str = false;
    for ch in s.chars() {
        if ch == '"' {
            in_str = !in_str;
        }
        if !in_str && (ch.is_ascii_digit() || ch == '-' || ch == '+' || ch == '.' || ch == 'e' || ch == 'E') {
            cur.push(ch);
        } else if !cur.is_empty() {
            out.push(std::mem::take(&mut cur));
        }
    }
    if !cur.is_empty() {
        out.push(cur);
    }
    out.sort();
    out
}

fn run18<T: Est>(c: &S18, o: &mut Obs) -> TestResult {
    let cp = c.checkpoint.min(c.ops.len());
    let mut e = T::new_();
    for op in &c.ops[..cp] {
        apply(&mut e, op);
    }
    let before = e.snap();
    // the uninterrupted computation: a copy that is never serialised
    let mut control = e.clone();
    let dbg_before = e.dbg();
    let s = match e.to_json() {
        Ok(s) => s,
        Err(m) => return fail("serde:serialize", format!("{}: serialisation failed: {}", T::NAME, m)),
    };
    if s.contains("null") {
        // a non-finite field (empty Min/Max): outside the property, JSON cannot carry it
        o.discarded = Some("state has a non-finite field (not representable in JSON; outside C18)");
        return Ok(());
    }
    // precondition: the format is lossless on this document
    // (serde_json::Value sorts object keys, so the comparison is on the multiset of number tokens)
    let lossless = serde_json::from_str::<serde_json::Value>(&s).ok().and_then(|v| serde_json::to_string(&v).ok()).map_or(false, |t| number_tokens(&t) == number_tokens(&s));
    if !lossless {
        o.discarded = Some("serde_json is not lossless on this document (not blamed on the crate)");
        return Ok(());
    }
    o.evals += 1;
    if let Some(d) = snap_diff(&before, &e.snap()) {
        return fail("serde:serialize-modifies", format!("{}: serialising modified the estimator: {}", T::NAME, d));
    }
    o.evals += 1;
    if e.dbg() != dbg_before {
        return fail("serde:serialize-modifies", format!("{}: serialising modified the estimator's (Debug-visible) state: {} -> {}", T::NAME, dbg_before, e.dbg()));
    }
    let mut r = match T::from_json(&s) {
        Ok(r) => r,
        Err(m) => return fail("serde:deserialize", format!("{}: cannot deserialise its own output {}: {}", T::NAME, s, m)),
    };
    o.evals += 2;
    match r.to_json() {
        Ok(s2) if s2 == s => {}
        Ok(s2) => return fail("serde:reserialize", format!("{}: serialise(deserialise(s)) != s: {} vs {}", T::NAME, s2, s)),
        Err(m) => return fail("serde:serialize", m),
    }
    if let Some(d) = snap_diff(&before, &r.snap()) {
        return fail("serde:restored-differs", format!("{}: restored estimator differs after {} operations: {} (document {})", T::NAME, cp, d, s));
    }
    // second lossless format: the Value tree (exercises the Deserialize impl through a different Deserializer)
    let mut r2 = match e.to_value().and_then(T::from_value) {
        Ok(r2) => r2,
        Err(m) => return fail("serde:value-roundtrip", format!("{}: round trip through serde_json::Value failed: {}", T::NAME, m)),
    };
    o.evals += 1;
    if let Some(d) = snap_diff(&before, &r2.snap()) {
        return fail("serde:restored-differs", format!("{}: estimator restored from a serde_json::Value differs after {} operations: {}", T::NAME, cp, d));
    }
    // continue the stream on both
    for (k, op) in c.ops[cp..].iter().enumerate() {
        apply(&mut e, op);
        apply(&mut r, op);
        apply(&mut r2, op);
        apply(&mut control, op);
        o.evals += 3;
        if let Some(d) = snap_diff(&control.snap(), &e.snap()) {
            return fail("serde:serialize-modifies", format!("{}: {} operations after it was serialised (checkpoint {}) the estimator diverges from a copy that was never serialised: {}", T::NAME, k + 1, cp, d));
        }
        if let Some(d) = snap_diff(&e.snap(), &r2.snap()) {
            return fail("serde:continuation-differs", format!("{}: {} operations after the round trip through serde_json::Value (checkpoint {}) the restored copy diverges: {}", T::NAME, k + 1, cp, d));
        }
        if let Some(d) = snap_diff(&e.snap(), &r.snap()) {
            return fail("serde:continuation-differs", format!("{}: {} operations after the round trip (checkpoint {}) the restored copy diverges: {}", T::NAME, k + 1, cp, d));
        }
    }
    let tail_adds = c.ops[cp..].iter().filter(|op| matches!(op, SOp::Add { .. })).count();
    o.nontrivial = cp > 0 && cp < c.ops.len() && tail_adds >= 1;
    if T::NAME.starts_with("Quantile") {
        let n_before: usize = c.ops[..cp].iter().map(|op| match op { SOp::Add { .. } => 1, SOp::Merge { vals } => vals.len(), SOp::SelfMerge { .. } => 0, SOp::Bulk { n, .. } => *n as usize }).sum();
        if n_before < 5 {
            o.class("Quantile checkpoint before the fifth observation");
        } else {
            o.class("Quantile checkpoint after the fifth observation");
        }
    }
    if c.ops[..cp].iter().any(|op| matches!(op, SOp::Merge { .. })) && c.ops[cp..].iter().any(|op| matches!(op, SOp::Merge { .. })) {
        o.class("checkpoint between merges");
    }
    if cp == 0 {
        o.class("checkpoint on the empty estimator");
    }
    if e.len_().map_or(false, |l| l > 1 << 53) {
        o.class("sample size beyond 2^53");
    }
    o.classf(T::NAME.to_string());
    Ok(())
}

pub struct RoundTrip;
impl Check for RoundTrip {
    type Case = S18;
    fn name(&self) -> &'static str {
        "serde_round_trip"
    }
    fn fp(&self, c: &S18, h: &mut Fp) {
        h.s(&c.ty).s(&format!("{:?}", c.ops)).u(c.checkpoint as u64);
    }
    fn test(&self, c: &S18, o: &mut Obs) -> TestResult {
        match est_dispatch!(c.ty.as_str(), run18, c, o) {
            Some(r) => r,
            None => {
                o.discarded = Some("unknown type");
                Ok(())
            }
        }
    }
    fn simplify(&self, c: &S18) -> Vec<S18> {
        let mut out = Vec::new();
        for i in 0..c.ops.len() {
            let mut s = c.clone();
            s.ops.remove(i);
            if i < s.checkpoint {
                s.checkpoint -= 1;
            }
            out.push(s);
        }
        out
    }
}

pub fn sop_strategy(kind: Kind) -> impl Strategy<Value = SOp> {
    prop_oneof![
        6 => (first_value(kind), second_value(kind)).prop_map(|(x, y)| SOp::Add { x, y }),
        1 => vec((first_value(kind), second_value(kind)), 0..6).prop_map(|vals| SOp::Merge { vals }),
        1 => prop_oneof![3 => 1u8..4, 1 => 50u8..62].prop_map(|times| SOp::SelfMerge { times }),
    ]
}

pub fn run(cx: &Ctx) {
    cx.set_rule("cases = (type, stream of adds and merges over the C01 domain, checkpoint position c in 0..=len) for Mean, Variance, Skewness, Kurtosis, Moments4, define_moments! orders 6 and 10, Min, Max, Quantile (p = 0.5, 0.9, 0.01), WeightedMean, WeightedMeanWithError, Covariance and define_histogram! types (LEN 3, 10, 100, finite edges): two lossless formats — JSON text with float_roundtrip and the serde_json::Value tree —: s = serde_json::to_string(e); precondition: parsing s into serde_json::Value and printing it gives s again (lossless on this document — otherwise discarded and counted); e' = from_str(s); to_string(e') == s; every accessor of e' bit-equal to e's; serialising leaves e unchanged; then the remaining operations are applied to both and all accessors compared bit-for-bit after EACH step. Short streams take every checkpoint position; fixed long histories put the checkpoint after 70 000 to 400 000 (thorough 3 000 000) observations. Non-trivial = 0 < c < len and the tail contains at least one add; distinct = hash of (type, stream, checkpoint)");
    cx.assume("states with non-finite fields (empty Min/Max) cannot be carried by JSON and are outside the property: discarded and counted");
    cx.label("every-checkpoint");
    for ty in SERDE_TYPES {
        let kind = kind_of(ty);
        let ty = ty.to_string();
        // every checkpoint of short streams: the strategy draws a stream of <= 9 ops, the enumeration over c happens here
        let strat = move || {
            let ty = ty.clone();
            (vec(sop_strategy(kind), 0..10), any::<proptest::sample::Index>()).prop_map(move |(ops, ix)| {
                let cp = ix.index(ops.len() + 1);
                S18 { ty: ty.clone(), ops, checkpoint: cp }
            })
        };
        cx.run_pt(&RoundTrip, cx.by(600, 6000), cx.workers.min(8), strat, "streams of 0..9 operations, checkpoint uniform over 0..=len (covers the <5-observation phase of Quantile)");
    }
    cx.label("long-streams");
    for ty in SERDE_TYPES {
        let kind = kind_of(ty);
        let ty = ty.to_string();
        let max_ops = cx.by(60, 400);
        let strat = move || {
            let ty = ty.clone();
            (vec(sop_strategy(kind), 10..max_ops), any::<proptest::sample::Index>()).prop_map(move |(ops, ix)| {
                let cp = ix.index(ops.len() + 1);
                S18 { ty: ty.clone(), ops, checkpoint: cp }
            })
        };
        cx.run_pt(&RoundTrip, cx.by(200, 3000), cx.workers.min(8), strat, "streams of 10..60 (thorough 400) operations");
    }
    // the checkpoint late in a long history: state that drifts with the number of observations (accumulated
    // desired positions of P-square, large counts) must still round-trip
    cx.label("late-checkpoint");
    let mut late = Vec::new();
    for ty in SERDE_TYPES {
        for (k, &n) in [70_000u32, 150_000, if cx.thorough() { 3_000_000 } else { 400_000 }].iter().enumerate() {
            let ops = vec![SOp::Bulk { n, seed: 7 + k as u32 }, SOp::Add { x: 0.25, y: 1.0 }, SOp::Bulk { n: 50, seed: 99 }, SOp::Merge { vals: vec![(1.5, 2.0), (-2.0, 0.5)] }, SOp::Add { x: -1.0, y: 1.0 }];
            for cp in [1usize, 3] {
                late.push(S18 { ty: ty.to_string(), ops: ops.clone(), checkpoint: cp });
            }
        }
    }
    cx.run_list(&RoundTrip, late, "every type: 70 000 / 150 000 / 400 000 (thorough 3 000 000) observations, then the round trip, then adds and a merge");
}

pub fn replay(check: &str, case: &serde_json::Value) -> Option<Result<(), String>> {
    match check {
        "serde_round_trip" => Some(replay_case(&RoundTrip, case)),
        _ => None,
    }
}
