//! C08 — weighted mean and its error equal the exact weighted statistics.
use super::common::*;
use crate::engine::*;
use crate::gen;
use crate::oracle::*;
use average::{Merge, WeightedMean, WeightedMeanWithError};
use proptest::collection::vec;
use proptest::prelude::*;
use serde::{Deserialize, Serialize};

/// (value, weight) pairs, a chunking + merge order, and the ingestion path used
/// to build each chunk (0 add loop, 1 collect by value, 2 collect by reference,
/// 3 extend by value onto new(), 4 extend by reference in two pieces)
#[derive(Clone, Debug, Serialize, Deserialize)]
pub struct WCase {
    #[serde(with = "fpairs")]
    pub pairs: Vec<(f64, f64)>,
    pub cuts: Vec<usize>,
    pub merges: Vec<usize>,
    pub path: u8,
}

pub trait W: Clone + Merge + crate::types::Pair {}
impl W for WeightedMean {}
impl W for WeightedMeanWithError {}

pub const PATHS: u8 = 11;
pub const PATH_NAMES: [&str; 11] = ["add", "collect-val", "collect-ref", "extend-val", "extend-ref-2-pieces", "collect-val(zero-weight prefix)+add", "collect-ref(prefix)+extend-val", "collect(empty)+extend-ref", "collect-val from a filter (size_hint lower bound 0)", "extend-ref from a filter, 2 pieces", "collect-ref from a filter + extend-val from a filter"];

/// length of the prefix that is collected before the rest is added: the leading
/// run of zero second components (zero weights) if there is one, else half
fn prefix_len(ps: &[(f64, f64)]) -> usize {
    let z = ps.iter().take_while(|p| p.1 == 0.0).count();
    if z > 0 && z < ps.len() {
        z
    } else {
        ps.len() / 2
    }
}

pub fn build_chunk<T: crate::types::Pair>(ps: &[(f64, f64)], path: u8) -> T {
    match path % PATHS {
        5 => {
            // collect a prefix by value, continue with add
            let k = prefix_len(ps);
            let mut t: T = ps[..k].iter().copied().collect();
            for &(a, b) in &ps[k..] {
                t.add(a, b);
            }
            t
        }
        6 => {
            let k = prefix_len(ps);
            let mut t: T = ps[..k].iter().collect();
            t.extend_val(&ps[k..]);
            t
        }
        7 => {
            let mut t: T = ps[..0].iter().copied().collect();
            t.extend_ref(ps);
            t
        }
        // the same ingestion paths through iterators that do not know their length (a filter that
        // keeps everything): an implementation that sizes its work by size_hint must not lose items
        8 => T::collect_val_unsized(ps),
        9 => {
            let mut t = T::new();
            let h = ps.len() / 2;
            t.extend_ref_unsized(&ps[..h]);
            t.extend_ref_unsized(&ps[h..]);
            t
        }
        10 => {
            let k = prefix_len(ps);
            let mut t = T::collect_ref_unsized(&ps[..k]);
            t.extend_val_unsized(&ps[k..]);
            t
        }
        0 => {
            let mut t = T::new();
            for &(a, b) in ps {
                t.add(a, b);
            }
            t
        }
        1 => ps.iter().copied().collect(),
        2 => ps.iter().collect(),
        3 => {
            let mut t = T::new();
            t.extend_val(ps);
            t
        }
        _ => {
            let mut t = T::default_();
            let h = ps.len() / 2;
            t.extend_ref(&ps[..h]);
            t.extend_ref(&ps[h..]);
            t
        }
    }
}

pub fn build_tree<T: crate::types::Pair>(pairs: &[(f64, f64)], cuts: &[usize], merges: &[usize], path: u8) -> T {
    gen::run_merge_tree(pairs.len(), cuts, merges, |a, b| build_chunk::<T>(&pairs[a..b], path), |l: &mut T, r: &T| l.merge(r))
}

fn judge_weighted(tag: &str, wm: &WeightedMean, we: &WeightedMeanWithError, xs: &[f64], ws: &[f64], o: &mut Obs) -> TestResult {
    let n = xs.len() as f64;
    let ew = exact_weighted(xs, ws);
    let ex = exact_moments(xs, 2);
    // exact len / unweighted statistics (C01 envelope)
    judge_eq_u64(o, &format!("{}WeightedMeanWithError::len", tag), we.len(), xs.len() as u64)?;
    judge(o, &format!("{}WeightedMeanWithError::unweighted_mean", tag), we.unweighted_mean(), &ex.mean, ex.env_mean())?;
    let unweighted_ok = !ex.zero_spread && ex.kappa() <= 1e12;
    if unweighted_ok {
        let r = 16.0 * ex.nku();
        let pv = ex.pop_var();
        judge(o, &format!("{}WeightedMeanWithError::population_variance", tag), we.population_variance(), &pv, r * pv.to_f64())?;
        if ex.n >= 2 {
            let sv = ex.sample_var();
            judge(o, &format!("{}WeightedMeanWithError::sample_variance", tag), we.sample_variance(), &sv, r * sv.to_f64())?;
        }
    }
    // weight sums: 8 n u relative
    let rel = 8.0 * n * U;
    judge(o, &format!("{}WeightedMean::sum_weights", tag), wm.sum_weights(), &ew.sw, rel * ew.sw.to_f64())?;
    judge(o, &format!("{}WeightedMeanWithError::sum_weights", tag), we.sum_weights(), &ew.sw, rel * ew.sw.to_f64())?;
    judge(o, &format!("{}WeightedMeanWithError::sum_weights_sq", tag), we.sum_weights_sq(), &ew.sw2, rel * ew.sw2.to_f64())?;
    if !ew.sw_pos {
        return Ok(());
    }
    let eff = ew.eff.unwrap();
    judge(o, &format!("{}WeightedMeanWithError::effective_len", tag), we.effective_len(), &eff, rel * eff.to_f64())?;
    // weighted mean: 16 n u max|x| (no kappa)
    let env = 16.0 * n * U * ex.max_abs;
    let m = ew.wmean.unwrap();
    judge(o, &format!("{}WeightedMean::mean", tag), wm.mean(), &m, env)?;
    judge(o, &format!("{}WeightedMeanWithError::weighted_mean", tag), we.weighted_mean(), &m, env)?;
    o.evals += 1;
    if wm.is_empty() {
        return fail("weighted:is_empty", format!("{}WeightedMean::is_empty() with positive total weight", tag));
    }
    if unweighted_ok && ex.n >= 2 {
        let vwm = ex.sample_var().div(&eff);
        let relv = 16.0 * ex.nku() + 8.0 * n * U;
        judge(o, &format!("{}WeightedMeanWithError::variance_of_weighted_mean", tag), we.variance_of_weighted_mean(), &vwm, relv * vwm.to_f64())?;
        let er = vwm.sqrt();
        judge(o, &format!("{}WeightedMeanWithError::error", tag), we.error(), &er, relv * er.to_f64())?;
    }
    Ok(())
}

pub struct Weighted;
impl Check for Weighted {
    type Case = WCase;
    fn name(&self) -> &'static str {
        "weighted_statistics"
    }
    fn fp(&self, c: &WCase, h: &mut Fp) {
        for p in &c.pairs {
            h.f(p.0).f(p.1);
        }
        h.us(&c.cuts).us(&c.merges).u(c.path as u64);
    }
    fn test(&self, c: &WCase, o: &mut Obs) -> TestResult {
        let xs: Vec<f64> = c.pairs.iter().map(|p| p.0).collect();
        let ws: Vec<f64> = c.pairs.iter().map(|p| p.1).collect();
        if xs.is_empty() || !in_c01_domain(&xs) || ws.iter().any(|&w| !(w == 0.0 || (w >= 1e-6 && w <= 1e6))) {
            o.discarded = Some("outside the C08 domain (x as in C01, w in {0} U [1e-6,1e6])");
            return Ok(());
        }
        if !(ws.iter().sum::<f64>() > 0.0) {
            o.discarded = Some("total weight zero (sentinels belong to C16)");
            return Ok(());
        }
        let wm: WeightedMean = build_tree(&c.pairs, &c.cuts, &c.merges, c.path);
        let we: WeightedMeanWithError = build_tree(&c.pairs, &c.cuts, &c.merges, c.path);
        judge_weighted("", &wm, &we, &xs, &ws, o)?;
        // metamorphic: deleting the zero-weight pairs changes only len() and the unweighted statistics
        let kept: Vec<(f64, f64)> = c.pairs.iter().copied().filter(|p| p.1 != 0.0).collect();
        let zeros = c.pairs.len() - kept.len();
        if zeros > 0 {
            let kx: Vec<f64> = kept.iter().map(|p| p.0).collect();
            let kw: Vec<f64> = kept.iter().map(|p| p.1).collect();
            let wm2: WeightedMean = build_chunk(&kept, c.path);
            let we2: WeightedMeanWithError = build_chunk(&kept, c.path);
            judge_weighted("(zero-weight pairs deleted) ", &wm2, &we2, &kx, &kw, o)?;
            // both streams against the same exact weighted values, each inside the envelope of the full stream
            let ew = exact_weighted(&xs, &ws);
            let mx = xs.iter().fold(0.0f64, |a, x| a.max(x.abs()));
            let env = 16.0 * xs.len() as f64 * U * mx;
            judge(o, "(zero-weight pairs deleted) weighted_mean vs full-stream exact value", we2.weighted_mean(), &ew.wmean.unwrap(), env)?;
        }
        // classes
        let n = c.pairs.len();
        let pos = ws.iter().filter(|&&w| w > 0.0).count();
        if ws[0] == 0.0 {
            o.class("zero weight first");
        }
        if ws[n - 1] == 0.0 {
            o.class("zero weight last");
        }
        if n >= 3 && ws[0] == 0.0 && ws[1] == 0.0 {
            o.class("zero-weight prefix run");
        }
        // whole chunk of zero weights
        let mut b = vec![0usize];
        b.extend(c.cuts.iter().map(|&x| x.min(n)));
        b.push(n);
        if b.windows(2).any(|w| w[1] > w[0] && ws[w[0]..w[1]].iter().all(|&x| x == 0.0)) && c.cuts.len() > 0 {
            o.class("whole chunk of zero weights");
        }
        if (1..n.saturating_sub(1)).any(|i| ws[i] == 0.0 && ws[i - 1] > 0.0 && ws[i + 1] > 0.0) {
            o.class("isolated zero weight");
        }
        if !c.cuts.is_empty() {
            o.class("merged");
        }
        o.classf(format!("path={}", PATH_NAMES[(c.path % PATHS) as usize]));
        o.nontrivial = zeros >= 1 && pos >= 2;
        Ok(())
    }
    fn simplify(&self, c: &WCase) -> Vec<WCase> {
        let mut out = Vec::new();
        if !c.cuts.is_empty() {
            out.push(WCase { pairs: c.pairs.clone(), cuts: vec![], merges: vec![], path: c.path });
        }
        if c.pairs.len() <= 40 {
            for i in 0..c.pairs.len() {
                let mut p = c.pairs.clone();
                p.remove(i);
                let cuts = c.cuts.iter().map(|&k| if k > i { k - 1 } else { k }).collect();
                out.push(WCase { pairs: p, cuts, merges: c.merges.clone(), path: c.path });
            }
        }
        let r: Vec<(f64, f64)> = c.pairs.iter().map(|p| (round_sig(p.0, 2), if p.1 == 0.0 { 0.0 } else { round_sig(p.1, 1).clamp(1e-6, 1e6) })).collect();
        if r != c.pairs {
            out.push(WCase { pairs: r, cuts: c.cuts.clone(), merges: c.merges.clone(), path: c.path });
        }
        out
    }
}

/// weights from {0} U 10^U(-6,6) with zeros *placed* at every position class
pub fn weights_for(n: usize, raw: &[(f64, f64)], zero_mode: u8) -> Vec<f64> {
    let mut ws: Vec<f64> = (0..n)
        .map(|i| {
            let (u, v) = raw[i % raw.len().max(1)];
            if u < 0.18 {
                0.0
            } else {
                10f64.powf(12.0 * v - 6.0).clamp(1e-6, 1e6)
            }
        })
        .collect();
    if n == 0 {
        return ws;
    }
    match zero_mode % 7 {
        0 => {}
        1 => ws[0] = 0.0,
        2 => ws[n - 1] = 0.0,
        3 => {
            for w in ws.iter_mut().take((n / 3).max(1)) {
                *w = 0.0;
            }
        }
        4 => {
            // only the last weight positive
            for w in ws.iter_mut() {
                *w = 0.0;
            }
            ws[n - 1] = 1.5;
        }
        5 => {
            for (i, w) in ws.iter_mut().enumerate() {
                if i % 2 == 0 {
                    *w = 0.0;
                }
            }
        }
        _ => {
            // all equal weights (effective_len = n)
            for w in ws.iter_mut() {
                *w = 2.0;
            }
        }
    }
    if !(ws.iter().sum::<f64>() > 0.0) {
        ws[n - 1] = 1.0;
    }
    ws
}

pub fn wcase_strategy(mid: usize, big: usize) -> impl Strategy<Value = WCase> {
    (gen::dataset(1, mid, big, 11.9), vec((0.0..1.0f64, 0.0..1.0f64), 1..40), 0u8..7, prop_oneof![2 => Just(None), 3 => (gen::cut_mode(), gen::tree_mode()).prop_map(Some)], 0u8..PATHS).prop_map(|(xs, raw, zm, tree, path)| {
        let n = xs.len();
        let ws = weights_for(n, &raw, zm);
        let (cuts, merges) = match tree {
            None => (vec![], vec![]),
            Some((cm, tm)) => {
                let cuts = gen::make_cuts(&cm, n);
                let merges = gen::make_merges(&tm, cuts.len() + 1);
                (cuts, merges)
            }
        };
        WCase { pairs: xs.into_iter().zip(ws).collect(), cuts, merges, path }
    })
}

pub fn fixed() -> Vec<WCase> {
    let mk = |p: &[(f64, f64)], cuts: &[usize]| WCase { pairs: p.to_vec(), cuts: cuts.to_vec(), merges: vec![0; cuts.len()], path: 0 };
    vec![
        mk(&[(1., 0.), (2., 1.), (4., 1.)], &[]),
        mk(&[(1., 0.), (2., 1.), (4., 1.)], &[1]),
        mk(&[(1., 0.), (5., 0.), (2., 1.), (4., 1.)], &[2]),
        mk(&[(2., 1.), (1., 0.), (4., 1.)], &[1, 2]),
        mk(&[(2., 1.), (4., 1.), (1e30, 0.)], &[]),
        mk(&[(1., 0.1), (2., 0.2), (3., 0.3), (4., 0.4), (5., 0.5), (6., 0.6), (7., 0.7), (8., 0.8), (9., 0.9)], &[3]),
    ]
}

pub fn run(cx: &Ctx) {
    cx.set_rule("cases = (x over the C01 domain, w in {0} U 10^U(-6,6) with total weight > 0 and zero weights placed first / last / as a prefix run / everywhere but the last / alternating / isolated), built by add loop, collect by value, collect by reference, extend by value, extend by reference in two pieces, collect of a (zero-weight) prefix continued by add / extend, collect of nothing continued by extend, and by chunking + merge tree, for WeightedMean and WeightedMeanWithError; every accessor judged against exact big-integer weighted sums (weighted mean within 16 n u max|x|; weight sums and effective_len within 8 n u relative; unweighted statistics with the C01 envelope; variance_of_weighted_mean/error with relative bound 16 n kappa u + 8 n u); metamorphic: deleting the zero-weight pairs leaves the weighted statistics inside the envelope of the same exact values. Non-trivial = at least one zero weight and at least two positive weights; distinct = hash of (pairs, cuts, merge order, path)");
    cx.assume("exact oracle as in C01; unweighted variance accessors are judged only for kappa <= 1e12 and non-zero spread");
    cx.label("fixed");
    cx.run_list(&Weighted, fixed(), "F5 reproducers and the doc example");
    cx.label("generated");
    let big = cx.by(3000, 30000);
    cx.run_pt(&Weighted, cx.by(3000, 30000), cx.workers, move || wcase_strategy(3000, big), "n 1..=30000 (quick 3000), 7 zero-weight placements x 11 ingestion paths (3 of them through iterators without a length) x merge trees");
}

pub fn replay(check: &str, case: &serde_json::Value) -> Option<Result<(), String>> {
    match check {
        "weighted_statistics" => Some(replay_case(&Weighted, case)),
        _ => None,
    }
}
