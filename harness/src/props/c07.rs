//! C07 — with fewer than five observations Quantile returns the exact sample quantile.
use crate::engine::*;
use crate::p2ref::small_quantile;
use average::{Estimate, Quantile};
use proptest::collection::vec;
use proptest::prelude::*;

pub use super::c05::QStream;

pub struct Small;
impl Check for Small {
    type Case = QStream;
    fn name(&self) -> &'static str {
        "small_sample_quantile"
    }
    fn fp(&self, c: &QStream, h: &mut Fp) {
        h.f(c.p).fs(&c.xs);
    }
    fn test(&self, c: &QStream, o: &mut Obs) -> TestResult {
        let n = c.xs.len();
        if n == 0 || n > 4 || !(c.p >= 0.0 && c.p <= 1.0) || c.xs.iter().any(|x| !x.is_finite()) {
            o.discarded = Some("outside the C07 domain (1..4 finite observations, p in [0,1])");
            return Ok(());
        }
        let mut q = Quantile::new(c.p);
        for &x in &c.xs {
            q.add(x);
        }
        let mut h = c.xs.clone();
        h.sort_by(|a, b| a.partial_cmp(b).unwrap());
        o.nontrivial = h.iter().zip(&c.xs).any(|(a, b)| a != b);
        o.classf(format!("n={}", n));
        let ok = small_quantile(&h, c.p);
        let got = q.quantile();
        o.evals += 2;
        if q.len() != n as u64 {
            return fail("exact:Quantile::len", format!("len() = {} after {} observations", q.len(), n));
        }
        // spacing of the floating-point numbers at v (one unit in the last place)
        let ulp = |v: f64| crate::hist::next_up(v.abs()) - v.abs();
        let inside = got >= h[0] && got <= h[n - 1];
        if !inside || !ok.iter().any(|v| *v == got || (got - *v).abs() <= ulp(*v)) {
            return fail(
                "small-quantile",
                format!("p = {:?}, observations {:?} (sorted {:?}): quantile() = {:?}, exact sample quantile is {:?}", c.p, c.xs, h, got, ok),
            );
        }
        if c.p == 0.0 {
            o.class("p=0");
        } else if c.p == 1.0 {
            o.class("p=1");
        }
        Ok(())
    }
}

pub fn p_grid() -> Vec<f64> {
    let mut ps: Vec<f64> = vec![0.0, 1.0, 0.5, f64::MIN_POSITIVE, 5e-324, 1.0 - f64::EPSILON / 2.0];
    for n in 1..=4 {
        for k in 0..=n {
            let b = k as f64 / n as f64;
            ps.push(b);
            if b < 1.0 {
                ps.push(f64::from_bits(b.to_bits() + 1));
            }
            if b > 0.0 {
                ps.push(f64::from_bits(b.to_bits() - 1));
            }
        }
    }
    // values at graded distances from every k/n boundary (a tolerance in the whole-number test shows up here)
    for n in 1..=4 {
        for k in 0..=n {
            let b = k as f64 / n as f64;
            for d in [1e-15, 1e-13, 1e-12, 1e-11, 1e-10, 4e-10, 1e-9, 1e-8, 1e-6] {
                if b + d <= 1.0 {
                    ps.push(b + d);
                }
                if b - d >= 0.0 {
                    ps.push(b - d);
                }
            }
        }
    }
    // a fixed spread of "ordinary" values
    for i in 1..50 {
        ps.push((i as f64 * 0.618033988749895) % 1.0);
    }
    ps
}

pub const ALPHABET: [f64; 5] = [-1.5, 0.0, 2.0, 2.0, 7.25];

pub fn run(cx: &Ctx) {
    cx.set_rule("cases = (p, sequence of 1..4 observations): exhaustively every sequence over the 5-symbol alphabet {-1.5, 0, 2, 2, 7.25} (a duplicate included, i.e. all permutations of every multiset) x a p grid containing 0, 1, every k/n boundary, the values one ulp either side of each boundary, the smallest positive doubles and 49 spread values; plus generated values/p. Oracle: sort; t = n*p evaluated exactly as integer x power of two; whole t -> h[0], (h[k-1]+h[k])/2 or h[n-1]; t within 4 ulp of whole -> either adjacent convention; else h[ceil(t)-1]; equality up to 1 ulp of the (overflow-free) average; extreme magnitudes up to f64::MAX included. Non-trivial = arrival order differs from sorted order; distinct = hash of (p bits, sequence bits)");
    cx.assume("the exact-quantile convention is the one stated in property C07");
    let ps = p_grid();
    let np = ps.len() as u64;
    let mut seqs: Vec<Vec<f64>> = Vec::new();
    for n in 1..=4usize {
        for i in 0..(5u64.pow(n as u32)) {
            seqs.push(super::c05::alphabet_stream(&ALPHABET, n, i));
        }
    }
    let total = seqs.len() as u64 * np;
    cx.label("exhaustive");
    cx.run_enum(&Small, total, |i| Some(QStream { p: ps[(i % np) as usize], xs: seqs[(i / np) as usize].clone() }), "all sequences of length 1..=4 over a 5-symbol alphabet with a duplicate x p grid of 100+ values (all k/n boundaries +- 1 ulp)");
    if cx.thorough() {
        // a second alphabet: signed zeros, a duplicate, values whose sum overflows and whose halves underflow
        let wide: [f64; 8] = [-1.5, 0.0, -0.0, 2.0, 2.0, 1.5e308, -1.7e308, 5e-324];
        let mut wseqs: Vec<Vec<f64>> = Vec::new();
        for n in 1..=4usize {
            for i in 0..(8u64.pow(n as u32)) {
                wseqs.push(super::c05::alphabet_stream(&wide, n, i));
            }
        }
        let wtotal = wseqs.len() as u64 * np;
        cx.label("exhaustive-wide");
        cx.run_enum(&Small, wtotal, |i| Some(QStream { p: ps[(i % np) as usize], xs: wseqs[(i / np) as usize].clone() }), "all sequences of length 1..=4 over an 8-symbol alphabet (signed zeros, duplicate, +-1.6e308, smallest subnormal) x the p grid");
    }
    cx.label("generated");
    let strat = || {
        (prop_oneof![2 => 0.0..=1.0f64, 1 => proptest::sample::select(p_grid()), 1 => (0u8..5, 1u8..5, -16.0..-5.0f64, any::<bool>()).prop_map(|(k, n, e, s)| { let b = (k.min(n) as f64) / n as f64; let d = 10f64.powf(e); (if s { b + d } else { b - d }).clamp(0.0, 1.0) })], vec(prop_oneof![3 => -1e6..1e6f64, 1 => (-30.0..30.0f64).prop_map(|e| 10f64.powf(e)), 1 => proptest::sample::select(vec![0.0, -0.0, 1.0, -1.0]), 1 => proptest::sample::select(vec![f64::MAX, f64::MIN, 1e308, 1.5e308, -1e308, -1.7e308, 5e-324, -5e-324, f64::MIN_POSITIVE]), 1 => (300.0..308.25f64, any::<bool>()).prop_map(|(e, s)| { let v = 10f64.powf(e).min(f64::MAX); if s { -v } else { v } })], 1..5))
            .prop_map(|(p, xs)| QStream { p, xs })
    };
    cx.run_pt(&Small, cx.by(10000, 2000000), cx.workers, strat, "random finite values, random p");
}

pub fn replay(check: &str, case: &serde_json::Value) -> Option<Result<(), String>> {
    match check {
        "small_sample_quantile" => Some(replay_case(&Small, case)),
        _ => None,
    }
}
