//! Case types and helpers shared by several properties.
use crate::engine::*;
use crate::oracle::*;
use crate::types::*;
use serde::{Deserialize, Serialize};
use std::marker::PhantomData;

/// A plain sequence of observations.
#[derive(Clone, Debug, Serialize, Deserialize)]
pub struct Xs {
    #[serde(with = "fvec")]
    pub xs: Vec<f64>,
}

pub fn feed<T: Uni>(xs: &[f64]) -> T {
    let mut t = T::new();
    for &x in xs {
        t.add(x);
    }
    t
}

/// One chunk summarised through one of the construction paths (C20 demands that they are
/// interchangeable; the merge-tree checks rotate through them so that a defect confined to one
/// path — a blocked `extend`, a batched `from_iter` — meets the merge histories too).
pub fn build_uni<T: Uni>(xs: &[f64], mode: usize) -> T {
    match mode % 4 {
        0 => xs.iter().collect(),
        1 => feed(xs),
        2 => {
            let mut t = T::new();
            if T::HAS_EXTEND {
                t.extend_val(xs);
            } else {
                for &x in xs {
                    t.add(x);
                }
            }
            t
        }
        _ => xs.iter().copied().collect(),
    }
}

pub fn n_bucket(n: usize) -> &'static str {
    match n {
        0 => "n=0",
        1 => "n=1",
        2..=9 => "n=2-9",
        10..=200 => "n=10-200",
        201..=3000 => "n=201-3000",
        3001..=30000 => "n=3001-30000",
        _ => "n>30000",
    }
}
pub fn kappa_bucket(k: f64) -> String {
    if !k.is_finite() {
        return "kappa=inf".into();
    }
    let d = k.log10().floor().max(0.0) as i32;
    format!("kappa=1e{}-1e{}", d / 3 * 3, d / 3 * 3 + 3)
}

/// Domain gate shared by the C01-domain properties. Returns the exact
/// statistics when the data are inside the domain, otherwise marks the case as
/// discarded.
pub fn c01_gate(xs: &[f64], order: usize, min_n: usize, o: &mut Obs) -> Option<Exact> {
    if xs.len() < min_n || xs.is_empty() {
        o.discarded = Some("fewer observations than the property's minimum");
        return None;
    }
    if !in_c01_domain(xs) {
        o.discarded = Some("value outside {0} U [1e-30,1e30]");
        return None;
    }
    let ex = exact_moments(xs, order);
    if ex.zero_spread && xs.len() >= 2 {
        o.discarded = Some("zero spread (constant data belong to C16)");
        return None;
    }
    if !ex.zero_spread && !(ex.kappa() <= 1e12) {
        o.discarded = Some("kappa > 1e12");
        return None;
    }
    Some(ex)
}

/// "Feed one observation at a time, then every accessor must be inside its
/// envelope of the exact statistic" for one estimator type.
pub struct Stream<T: Uni> {
    pub name: &'static str,
    pub min_n: usize,
    /// non-triviality rule
    pub rule: fn(&Exact) -> bool,
    pub _p: PhantomData<fn() -> T>,
}
impl<T: Uni> Check for Stream<T> {
    type Case = Xs;
    fn name(&self) -> &'static str {
        self.name
    }
    fn fp(&self, c: &Xs, h: &mut Fp) {
        h.fs(&c.xs);
    }
    fn test(&self, c: &Xs, o: &mut Obs) -> TestResult {
        let ex = match c01_gate(&c.xs, T::ORDER.max(2), self.min_n, o) {
            Some(e) => e,
            None => return Ok(()),
        };
        if !order_ok(&ex, T::ORDER) {
            o.discarded = Some("order-N arithmetic precondition (n*M^N < 1e300, rho_N*u > 1e-290)");
            return Ok(());
        }
        o.class(n_bucket(c.xs.len()));
        o.classf(kappa_bucket(ex.kappa()));
        o.nontrivial = (self.rule)(&ex);
        let t: T = feed(&c.xs);
        t.judge(&ex, o)
    }
    fn simplify(&self, c: &Xs) -> Vec<Xs> {
        simplify_xs(&c.xs).into_iter().map(|xs| Xs { xs }).collect()
    }
}

/// Generic simplification candidates for a float sequence: drop one element,
/// drop a half, round values to few significant digits.
pub fn simplify_xs(xs: &[f64]) -> Vec<Vec<f64>> {
    let mut out = Vec::new();
    let n = xs.len();
    if n > 1 {
        out.push(xs[..n / 2].to_vec());
        out.push(xs[n / 2..].to_vec());
        if n <= 64 {
            for i in 0..n {
                let mut v = xs.to_vec();
                v.remove(i);
                out.push(v);
            }
        }
    }
    // round all values to 3 significant digits
    let r: Vec<f64> = xs.iter().map(|&x| round_sig(x, 3)).collect();
    if r.iter().zip(xs).any(|(a, b)| a.to_bits() != b.to_bits()) {
        out.push(r);
    }
    out
}
pub fn round_sig(x: f64, digits: i32) -> f64 {
    if x == 0.0 || !x.is_finite() {
        return x;
    }
    let s = format!("{:.*e}", (digits - 1) as usize, x);
    s.parse().unwrap_or(x)
}
