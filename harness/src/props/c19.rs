//! C19 — parallel collection gives the sequential answer under every schedule.
use super::common::*;
use crate::engine::*;
use crate::gen;
use crate::oracle::*;
use crate::types::*;
use average::{Kurtosis, Max, Mean, Min, Moments4, Skewness, Variance};
use proptest::prelude::*;
use rayon::prelude::*;
use serde::{Deserialize, Serialize};
use std::sync::OnceLock;

/// split: 0 default, 1..=4 with_max_len(1|2|7|64), 5..=7 with_min_len(2|100|n)
#[derive(Clone, Debug, Serialize, Deserialize)]
pub struct Par {
    #[serde(with = "fvec")]
    pub xs: Vec<f64>,
    pub threads: usize,
    pub split: u8,
    pub by_value: bool,
    pub reps: usize,
    /// shape of the parallel iterator: 0 plain slice/vec (indexed), 1 filter(always true)
    /// (unindexed splitting), 2 chain of the two halves, 3 par_bridge over a sequential
    /// iterator (items reach the folds in arbitrary order), 4 par_chunks(k).flatten_iter()
    #[serde(default)]
    pub source: u8,
    /// schedule perturbation: 0 none; 1 a busy-wait on ~3% of the items (hash of the index);
    /// 2 the first eighth of the items is slow (forces steals from the front)
    #[serde(default)]
    pub jitter: u8,
}

fn spin(units: u32) {
    let mut acc = 0u64;
    for i in 0..(units as u64 * 400) {
        acc = acc.wrapping_mul(6364136223846793005).wrapping_add(i);
    }
    std::hint::black_box(acc);
}
fn delay(jitter: u8, idx: usize, n: usize) {
    match jitter % 3 {
        1 => {
            let h = (idx as u64).wrapping_mul(0x9E3779B97F4A7C15) >> 59;
            if h == 0 {
                spin(1 + (idx % 7) as u32);
            }
        }
        2 => {
            if idx < n / 8 {
                spin(2);
            }
        }
        _ => {}
    }
}

const THREADS: [usize; 6] = [1, 2, 3, 4, 8, 16];
fn pools() -> &'static Vec<rayon::ThreadPool> {
    static P: OnceLock<Vec<rayon::ThreadPool>> = OnceLock::new();
    P.get_or_init(|| THREADS.iter().map(|&t| rayon::ThreadPoolBuilder::new().num_threads(t).build().expect("thread pool")).collect())
}

fn par_collect<T: Uni + Send + rayon::iter::FromParallelIterator<f64> + for<'a> rayon::iter::FromParallelIterator<&'a f64>>(c: &Par) -> T {
    let n = c.xs.len().max(1);
    let pool = &pools()[THREADS.iter().position(|&t| t == c.threads).unwrap_or(0)];
    let jit = c.jitter;
    macro_rules! split {
        ($v:expr) => {
            match c.split % 8 {
                0 => $v.collect(),
                1 => $v.with_max_len(1).collect(),
                2 => $v.with_max_len(2).collect(),
                3 => $v.with_max_len(7).collect(),
                4 => $v.with_max_len(64).collect(),
                5 => $v.with_min_len(2).collect(),
                6 => $v.with_min_len(100).collect(),
                _ => $v.with_min_len(n).collect(),
            }
        };
    }
    pool.install(|| match (c.source % 5, c.by_value) {
        // indexed sources honour the splitting bounds
        (0, true) => {
            let v = c.xs.clone().into_par_iter().enumerate().map(move |(i, x)| {
                delay(jit, i, n);
                x
            });
            split!(v)
        }
        (0, false) => {
            if jit == 0 {
                let v = c.xs.par_iter();
                split!(v)
            } else {
                let v = c.xs.par_iter().enumerate().map(move |(i, x)| {
                    delay(jit, i, n);
                    x
                });
                split!(v)
            }
        }
        // unindexed: filter that keeps everything
        (1, true) => c.xs.clone().into_par_iter().filter(|x| !x.is_nan()).collect(),
        (1, false) => c.xs.par_iter().filter(|x| !x.is_nan()).collect(),
        // chain of the two halves
        (2, true) => {
            let (a, b) = c.xs.split_at(c.xs.len() / 2);
            a.to_vec().into_par_iter().chain(b.to_vec().into_par_iter()).collect()
        }
        (2, false) => {
            let (a, b) = c.xs.split_at(c.xs.len() / 2);
            a.par_iter().chain(b.par_iter()).collect()
        }
        // par_bridge: a sequential iterator fed to the pool, arbitrary arrival order
        (3, true) => c.xs.iter().copied().par_bridge().collect(),
        (3, false) => c.xs.iter().par_bridge().collect(),
        // chunks flattened
        (_, true) => c.xs.par_chunks(7).flat_map_iter(|ch| ch.iter().copied()).collect(),
        (_, false) => c.xs.par_chunks(7).flat_map_iter(|ch| ch.iter()).collect(),
    })
}

fn one<T: Uni + Send + rayon::iter::FromParallelIterator<f64> + for<'a> rayon::iter::FromParallelIterator<&'a f64>>(c: &Par, ex: Option<&Exact>, o: &mut Obs) -> TestResult {
    let seq: T = feed(&c.xs);
    let mut prev: Option<Snapshot> = None;
    for rep in 0..c.reps.max(1) {
        let p: T = par_collect(c);
        o.evals += 1;
        if p.len() != seq.len() {
            return fail("parallel:len", format!("{}: parallel len() = {:?}, sequential {:?} ({} threads, split {}, rep {})", T::NAME, p.len(), seq.len(), c.threads, c.split, rep));
        }
        match ex {
            None => {
                // empty input: the empty-estimator sentinels, i.e. the snapshot of new()
                if let Some(d) = snap_diff(&T::new().snapshot(), &p.snapshot()) {
                    return fail("parallel:empty", format!("{}: collecting an empty parallel iterator differs from new(): {}", T::NAME, d));
                }
            }
            Some(ex) => {
                if T::ORDER == 0 || ex.n == 1 || !ex.zero_spread {
                    p.judge(ex, o).map_err(|f| Fail { sig: format!("parallel:{}", f.sig), msg: format!("{} threads, split {}, {}: {}", c.threads, c.split, if c.by_value { "into_par_iter" } else { "par_iter" }, f.msg) })?;
                }
            }
        }
        // Min/Max must be exactly the sequential result, repeated runs of them identical
        if T::ORDER == 0 {
            // "exactly the sequential min/max" is numeric equality (C14: the sign of a zero is not fixed by f64::min/max)
            let numeric_eq = seq.snapshot().iter().zip(p.snapshot().iter()).all(|(a, b)| a.1 == b.1);
            if let Some(d) = snap_diff(&seq.snapshot(), &p.snapshot()).filter(|_| !numeric_eq) {
                return fail("parallel:minmax", format!("{}: parallel result differs from the sequential one: {}", T::NAME, d));
            }
        }
        prev = Some(p.snapshot());
    }
    let _ = prev;
    Ok(())
}

pub struct Parallel;
impl Check for Parallel {
    type Case = Par;
    fn name(&self) -> &'static str {
        "parallel_collect"
    }
    fn fp(&self, c: &Par, h: &mut Fp) {
        h.fs(&c.xs).u(c.threads as u64).u(c.split as u64).u(c.by_value as u64).u(c.source as u64).u(c.jitter as u64);
    }
    fn test(&self, c: &Par, o: &mut Obs) -> TestResult {
        if !THREADS.contains(&c.threads) {
            o.discarded = Some("thread count not in {1,2,3,4,8,16}");
            return Ok(());
        }
        let ex = if c.xs.is_empty() {
            None
        } else {
            match c01_gate(&c.xs, 6, 1, o) {
                Some(e) => Some(e),
                None => return Ok(()),
            }
        };
        let exr = ex.as_ref();
        one::<Mean>(c, exr, o)?;
        one::<Variance>(c, exr, o)?;
        one::<Skewness>(c, exr, o)?;
        one::<Kurtosis>(c, exr, o)?;
        one::<Min>(c, exr, o)?;
        one::<Max>(c, exr, o)?;
        one::<Moments4>(c, exr, o)?;
        if exr.map_or(true, |e| order_ok(e, 6)) {
            one::<M6>(c, exr, o)?;
        }
        let gran = match c.split % 8 {
            1 => 1,
            2 => 2,
            3 => 7,
            4 => 64,
            6 => 100,
            7 => c.xs.len(),
            _ => 1,
        };
        o.nontrivial = c.threads >= 2 && c.xs.len() > gran;
        o.classf(format!("threads={}", c.threads));
        o.classf(format!("split={}", ["default", "max_len(1)", "max_len(2)", "max_len(7)", "max_len(64)", "min_len(2)", "min_len(100)", "min_len(n)"][(c.split % 8) as usize]));
        o.class(n_bucket(c.xs.len()));
        o.classf(format!("source={}", ["indexed", "filter (unindexed)", "chain", "par_bridge", "par_chunks+flat_map_iter"][(c.source % 5) as usize]));
        if c.jitter % 3 != 0 {
            o.class("schedule perturbed by per-item delays");
        }
        Ok(())
    }
    fn simplify(&self, c: &Par) -> Vec<Par> {
        let mut out = Vec::new();
        if c.jitter != 0 {
            out.push(Par { jitter: 0, ..c.clone() });
        }
        if c.source != 0 {
            out.push(Par { source: 0, ..c.clone() });
        }
        if c.xs.len() > 1 {
            out.push(Par { xs: c.xs[..c.xs.len() / 2].to_vec(), ..c.clone() });
            out.push(Par { xs: c.xs[c.xs.len() / 2..].to_vec(), ..c.clone() });
        }
        out
    }
}

pub fn run(cx: &Ctx) {
    cx.set_rule("cases = (vector over the C01 domain of length 0, 1, 2, 3, 7, 64, 1000, 10^4 or random (thorough: 10^5, 10^6), explicit ThreadPoolBuilder pool of 1, 2, 3, 4, 8 or 16 threads, splitting {default, with_max_len(1|2|7|64), with_min_len(2|100|n)}, par_iter() (&f64) or into_par_iter() (f64), iterator shape {indexed, filter (unindexed splitting), chain, par_bridge, par_chunks+flat_map_iter}, optional per-item busy-wait delays that perturb the steal order, 2-3 repetitions) collected into Mean, Variance, Skewness, Kurtosis, Min, Max, Moments4 and a harness-instantiated order-6 type. Oracle: len() exactly the sequential len(); min/max exactly the sequential ones; every other accessor inside the envelope of the EXACT statistics (hence any two runs differ by at most two envelopes); empty input gives the snapshot of new(). The verdict never depends on timing: every explored schedule must satisfy the same schedule-independent envelope. Non-trivial = at least 2 threads and an input longer than the splitting granularity; distinct = hash of (input bits, pool size, splitting, item kind)");
    cx.assume("rayon's steal order is not controlled by the harness: pool size and splitting bounds fix the forced part of the split tree, adaptive splits are sampled by repetition; the schedule-independent half (every contiguous chunking and merge tree, with empty fold identities) is decided by C02 and C11");
    let lens: Vec<usize> = vec![0, 1, 2, 3, 7, 64, 1000, 10_000];
    cx.label("grid");
    // fixed grid: every length x pool x splitting x item kind on one data set per length
    let mut grid = Vec::new();
    let mut r = Sm(cx.seed ^ 0xC19);
    for &n in &lens {
        let pl = gen::Placement { shape: r.below(gen::SHAPES as u64) as usize, order: 0, ls: if n % 2 == 0 { r.range(-28.0, -16.0) } else { r.range(-10.0, 28.0) }, lk: Some(r.range(0.0, 9.0)), neg: n % 3 == 1 };
        let xs = gen::bulk_dataset(n, r.next(), &pl);
        for &t in &THREADS {
            for split in 0..8u8 {
                if n >= 1000 && (split == 1 || split == 2) && !cx.thorough() && t > 4 {
                    continue;
                }
                for &bv in &[false, true] {
                    grid.push(Par { xs: xs.clone(), threads: t, split, by_value: bv, reps: 3, source: 0, jitter: 0 });
                    if split == 0 {
                        for source in 1..5u8 {
                            grid.push(Par { xs: xs.clone(), threads: t, split, by_value: bv, reps: 2, source, jitter: 0 });
                        }
                    }
                    if n >= 64 && n <= 1000 && (split == 0 || split == 3) {
                        for jitter in 1..3u8 {
                            grid.push(Par { xs: xs.clone(), threads: t, split, by_value: bv, reps: 2, source: 0, jitter });
                        }
                    }
                }
            }
        }
    }
    // chunks longer than 2^16 elements (u32/u64 products of sample sizes): one long input, few configurations
    {
        let n = 200_000;
        let pl = gen::Placement { shape: 7, order: 0, ls: 0.3, lk: Some(1.0), neg: false };
        let xs = gen::bulk_dataset(n, r.next(), &pl);
        for (t, split, bv) in [(1usize, 0u8, false), (2, 0, true), (16, 0, false), (4, 7, false)] {
            grid.push(Par { xs: xs.clone(), threads: t, split, by_value: bv, reps: 1, source: 0, jitter: 0 });
        }
    }
    cx.run_list(&Parallel, grid, "lengths {0,1,2,3,7,64,1000,10^4} (+ one trending input of 2*10^5 on 4 configurations) x pools {1,2,3,4,8,16} x 8 splittings x {par_iter, into_par_iter} x 3 repetitions");
    cx.label("generated");
    let strat = || {
        (gen::dataset(1, 3000, 20000, 11.9), proptest::sample::select(THREADS.to_vec()), 0u8..8, any::<bool>(), 0u8..5, 0u8..3).prop_map(|(xs, threads, split, by_value, source, jitter)| Par { jitter: if xs.len() <= 2000 { jitter } else { 0 }, xs, threads, split, by_value, reps: 2, source })
    };
    // proptest workers run concurrently on top of the rayon pools: oversubscription perturbs the schedules further
    cx.run_pt(&Parallel, cx.by(150, 3000), 4, strat, "random data sets n <= 20000 x random pool x random splitting, 2 repetitions");
    if cx.thorough() {
        cx.label("bulk");
        let bulk = |n: usize| move || (any::<u64>(), gen::placement(11.9), proptest::sample::select(THREADS.to_vec()), 0u8..8, any::<bool>()).prop_map(move |(seed, pl, threads, split, by_value)| Par { xs: gen::bulk_dataset(n, seed, &pl), threads, split, by_value, reps: 2, source: 0, jitter: 0 });
        cx.run_pt(&Parallel, 12, 2, bulk(100_000), "n = 1e5");
        cx.run_pt(&Parallel, 3, 2, bulk(1_000_000), "n = 1e6");
    }
}

pub fn replay(check: &str, case: &serde_json::Value) -> Option<Result<(), String>> {
    match check {
        "parallel_collect" => Some(replay_case(&Parallel, case)),
        _ => None,
    }
}
