//! C14 — Min and Max return the exact extreme of everything seen, in any order.
use crate::engine::*;
use crate::gen;
use average::{Estimate, Max, Merge, Min};
use proptest::collection::vec;
use proptest::prelude::*;
use serde::{Deserialize, Serialize};

/// path: 0 add loop, 1 collect by value, 2 collect by reference, 3 extend by
/// value (Min only), 4 extend by reference (Min only), 5 from_value(first non-NaN)
/// + add the rest
#[derive(Clone, Debug, Serialize, Deserialize)]
pub struct MM {
    #[serde(with = "fvec")]
    pub xs: Vec<f64>,
    pub cuts: Vec<usize>,
    pub merges: Vec<usize>,
    pub path: u8,
}

fn model_min(xs: &[f64]) -> f64 {
    let mut m = f64::INFINITY;
    for &x in xs {
        if !x.is_nan() && x < m {
            m = x;
        }
    }
    m
}
fn model_max(xs: &[f64]) -> f64 {
    let mut m = f64::NEG_INFINITY;
    for &x in xs {
        if !x.is_nan() && x > m {
            m = x;
        }
    }
    m
}

fn build_min(xs: &[f64], path: u8) -> Min {
    match path % 6 {
        0 => {
            let mut m = Min::new();
            for &x in xs {
                m.add(x);
            }
            m
        }
        1 => xs.iter().copied().collect(),
        2 => xs.iter().collect(),
        3 => {
            let mut m = Min::default();
            m.extend(xs.iter().copied());
            m
        }
        4 => {
            let mut m = Min::new();
            let h = xs.len() / 2;
            m.extend(xs[..h].iter());
            m.extend(xs[h..].iter());
            m
        }
        _ => match xs.iter().position(|x| !x.is_nan()) {
            // from_value(v) for a non-NaN v behaves as an estimator that has already seen v
            Some(k) => {
                let mut m = Min::from_value(xs[k]);
                for (i, &x) in xs.iter().enumerate() {
                    if i != k {
                        m.add(x);
                    }
                }
                m
            }
            None => {
                let mut m = Min::new();
                for &x in xs {
                    m.add(x);
                }
                m
            }
        },
    }
}
fn build_max(xs: &[f64], path: u8) -> Max {
    match path % 6 {
        0 | 3 | 4 => {
            // Max has no Extend impl: those paths fall back to the add loop
            let mut m = if path % 6 == 3 { Max::default() } else { Max::new() };
            for &x in xs {
                m.add(x);
            }
            m
        }
        1 => xs.iter().copied().collect(),
        2 => xs.iter().collect(),
        _ => match xs.iter().position(|x| !x.is_nan()) {
            Some(k) => {
                let mut m = Max::from_value(xs[k]);
                for (i, &x) in xs.iter().enumerate() {
                    if i != k {
                        m.add(x);
                    }
                }
                m
            }
            None => {
                let mut m = Max::new();
                for &x in xs {
                    m.add(x);
                }
                m
            }
        },
    }
}

pub struct Extremes;
impl Check for Extremes {
    type Case = MM;
    fn name(&self) -> &'static str {
        "min_max"
    }
    fn fp(&self, c: &MM, h: &mut Fp) {
        h.fs(&c.xs).us(&c.cuts).us(&c.merges).u(c.path as u64);
    }
    fn test(&self, c: &MM, o: &mut Obs) -> TestResult {
        let n = c.xs.len();
        let mn: Min = gen::run_merge_tree(n, &c.cuts, &c.merges, |a, b| build_min(&c.xs[a..b], c.path), |l: &mut Min, r: &Min| l.merge(r));
        let mx: Max = gen::run_merge_tree(n, &c.cuts, &c.merges, |a, b| build_max(&c.xs[a..b], c.path), |l: &mut Max, r: &Max| l.merge(r));
        // and with the merge direction reversed (right.merge(&left))
        let mn_r: Min = gen::run_merge_tree(n, &c.cuts, &c.merges, |a, b| build_min(&c.xs[a..b], c.path), |l: &mut Min, r: &Min| {
            let mut t = r.clone();
            t.merge(l);
            *l = t;
        });
        let mx_r: Max = gen::run_merge_tree(n, &c.cuts, &c.merges, |a, b| build_max(&c.xs[a..b], c.path), |l: &mut Max, r: &Max| {
            let mut t = r.clone();
            t.merge(l);
            *l = t;
        });
        let (wmin, wmax) = (model_min(&c.xs), model_max(&c.xs));
        o.evals += 4;
        for (nm, got, want) in [("Min::min", mn.min(), wmin), ("Min::min (reversed merge direction)", mn_r.min(), wmin), ("Max::max", mx.max(), wmax), ("Max::max (reversed merge direction)", mx_r.max(), wmax)] {
            if !(got == want) {
                return fail(&format!("extreme:{}", &nm[..8]), format!("{} = {:?} but the extreme non-NaN observation of {:?} is {:?} (cuts {:?}, path {})", nm, got, c.xs, want, c.cuts, c.path));
            }
        }
        // Estimate::estimate is the headline accessor
        if mn.estimate().to_bits() != mn.min().to_bits() || mx.estimate().to_bits() != mx.max().to_bits() {
            return fail("extreme:estimate", "estimate() differs from min()/max()".into());
        }
        let has_nan = c.xs.iter().any(|x| x.is_nan());
        let has_inf = c.xs.iter().any(|x| x.is_infinite());
        let increasing = c.xs.windows(2).all(|w| w[0] < w[1]);
        if has_nan {
            o.class("contains NaN");
        }
        if has_inf {
            o.class("contains an infinity");
        }
        if c.xs.iter().all(|x| x.is_nan()) {
            o.class("no non-NaN observation (sentinels)");
        }
        if c.xs.iter().any(|x| *x == 0.0 && x.is_sign_negative()) && c.xs.iter().any(|x| *x == 0.0 && x.is_sign_positive()) {
            o.class("both signed zeros");
        }
        if !c.cuts.is_empty() {
            o.class("merged");
        }
        o.classf(format!("path={}", ["add", "collect-val", "collect-ref", "extend-val", "extend-ref", "from_value"][(c.path % 6) as usize]));
        o.nontrivial = n > 0 && (has_nan || has_inf || !increasing);
        Ok(())
    }
    fn simplify(&self, c: &MM) -> Vec<MM> {
        let mut out = Vec::new();
        if !c.cuts.is_empty() {
            out.push(MM { xs: c.xs.clone(), cuts: vec![], merges: vec![], path: c.path });
        }
        for i in 0..c.xs.len().min(40) {
            let mut xs = c.xs.clone();
            xs.remove(i);
            out.push(MM { xs, cuts: c.cuts.iter().map(|&k| if k > i { k - 1 } else { k }).collect(), merges: c.merges.clone(), path: c.path });
        }
        if c.path != 0 {
            out.push(MM { xs: c.xs.clone(), cuts: c.cuts.clone(), merges: c.merges.clone(), path: 0 });
        }
        out
    }
}

pub const ALPHABET: [f64; 7] = [f64::NAN, f64::NEG_INFINITY, -2.5, -0.0, 0.0, 3.0, f64::INFINITY];
/// a NaN with the sign bit set (what 0.0/0.0 produces on x86) — sorts below -inf in total orders
pub const NEG_NAN: f64 = f64::from_bits(0xfff8_0000_0000_0000);

pub fn value() -> impl Strategy<Value = f64> {
    prop_oneof![
        3 => proptest::sample::select(ALPHABET.to_vec()),
        4 => -1e3..1e3f64,
        2 => (-300.0..300.0f64, any::<bool>()).prop_map(|(e, s)| if s { -10f64.powf(e) } else { 10f64.powf(e) }),
        1 => proptest::sample::select(vec![f64::MAX, f64::MIN, f64::MIN_POSITIVE, -f64::MIN_POSITIVE, 5e-324, -5e-324, NEG_NAN, NEG_NAN, f64::from_bits(0x7ff0_0000_0000_0001), f64::from_bits(0xfff0_0000_dead_beef)]),
    ]
}

pub fn run(cx: &Ctx) {
    cx.set_rule("cases = (sequence over finite values, +-inf, +-0.0, NaN, extreme magnitudes; chunking; merge order; construction path: add loop, collect by value/reference, extend by value/reference (Min only — Max has no Extend), from_value(v) + adds); both merge directions. Exhaustive: all sequences of length 0..5 over the 7-symbol alphabet {NaN,-inf,-2.5,-0.0,0.0,3,+inf} x all chunkings into <= 3 parts x both merge orders x 6 paths. Oracle: fold over the non-NaN values with <, starting at +-inf; numeric equality (so -0.0 == 0.0). Non-trivial = non-empty sequence containing a NaN or an infinity or not strictly increasing; distinct = hash of (sequence bits, cuts, merge order, path)");
    cx.label("exhaustive");
    // index space: length l in 0..=5, sequence, cuts (2 positions, non-decreasing, or none), path
    let mut cases: Vec<(Vec<f64>, Vec<usize>, Vec<usize>)> = Vec::new();
    for l in 0..=5usize {
        for i in 0..7u64.pow(l as u32) {
            let xs = super::c05::alphabet_stream(&ALPHABET, l, i);
            cases.push((xs.clone(), vec![], vec![]));
            for a in 0..=l {
                cases.push((xs.clone(), vec![a], vec![0]));
                for b in a..=l {
                    cases.push((xs.clone(), vec![a, b], vec![0, 0]));
                    cases.push((xs.clone(), vec![a, b], vec![1, 0]));
                }
            }
        }
    }
    let total = cases.len() as u64 * 6;
    cx.run_enum(&Extremes, total, |i| {
        let (xs, cuts, merges) = &cases[(i / 6) as usize];
        Some(MM { xs: xs.clone(), cuts: cuts.clone(), merges: merges.clone(), path: (i % 6) as u8 })
    }, "all sequences of length 0..=5 over a 7-symbol alphabet x all chunkings into <= 3 parts x both merge orders x 6 construction paths");
    cx.label("exhaustive-negative-nan");
    {
        let alpha2: [f64; 6] = [NEG_NAN, f64::NAN, f64::NEG_INFINITY, -1.0, 2.0, f64::INFINITY];
        let mut cases2: Vec<(Vec<f64>, Vec<usize>, Vec<usize>)> = Vec::new();
        for l in 0..=4usize {
            for i in 0..6u64.pow(l as u32) {
                let xs = super::c05::alphabet_stream(&alpha2, l, i);
                cases2.push((xs.clone(), vec![], vec![]));
                for a in 0..=l {
                    cases2.push((xs.clone(), vec![a], vec![0]));
                }
            }
        }
        let total2 = cases2.len() as u64 * 6;
        cx.run_enum(&Extremes, total2, |i| {
            let (xs, cuts, merges) = &cases2[(i / 6) as usize];
            Some(MM { xs: xs.clone(), cuts: cuts.clone(), merges: merges.clone(), path: (i % 6) as u8 })
        }, "all sequences of length 0..=4 over {-NaN (sign bit set), NaN, -inf, -1, 2, +inf} x all 2-chunkings x 6 construction paths");
    }
    cx.label("generated");
    let strat = || {
        (vec(value(), 0..200), prop_oneof![1 => Just(None), 2 => (gen::cut_mode(), gen::tree_mode()).prop_map(Some)], 0u8..6, any::<u8>()).prop_map(|(mut xs, tree, path, perm)| {
            // permutations: as drawn, sorted, reverse sorted (NaN kept in place at the end)
            match perm % 4 {
                1 => xs.sort_by(|a, b| a.total_cmp(b)),
                2 => xs.sort_by(|a, b| b.total_cmp(a)),
                _ => {}
            }
            let n = xs.len();
            let (cuts, merges) = match tree {
                None => (vec![], vec![]),
                Some((cm, tm)) => {
                    let cuts = gen::make_cuts(&cm, n);
                    let merges = gen::make_merges(&tm, cuts.len() + 1);
                    (cuts, merges)
                }
            };
            MM { xs, cuts, merges, path }
        })
    };
    cx.run_pt(&Extremes, cx.by(8000, 600000), cx.workers, strat, "random sequences of length 0..200 with special values, permutations, chunkings, merge trees");
}

pub fn replay(check: &str, case: &serde_json::Value) -> Option<Result<(), String>> {
    match check {
        "min_max" => Some(replay_case(&Extremes, case)),
        _ => None,
    }
}
