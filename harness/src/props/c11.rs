//! C11 — the empty estimator is an exact identity of merge and lengths add exactly.
use crate::engine::*;
use crate::est::*;
use crate::est_dispatch;
use crate::types::snap_diff;
use proptest::collection::vec;
use proptest::prelude::*;
use serde::{Deserialize, Serialize};

#[derive(Clone, Debug, Serialize, Deserialize)]
pub enum Op11 {
    New { i: usize },
    Add {
        i: usize,
        #[serde(with = "fstr")]
        x: f64,
        #[serde(with = "fstr")]
        y: f64,
    },
    Merge { i: usize, j: usize },
    Clone { i: usize, j: usize },
    /// merge estimator i with a clone of itself `times` times (counts beyond 2^53 are reached this way)
    SelfMerge { i: usize, times: u8 },
}

#[derive(Clone, Debug, Serialize, Deserialize)]
pub struct H11 {
    pub ty: String,
    pub ops: Vec<Op11>,
}

const POOL: usize = 3;

fn accepted<T: Est>(x: f64) -> bool {
    if T::KIND != Kind::Histo {
        return true;
    }
    // histogram wrapper types use fixed edges; a sample is counted iff it is in range
    let t = T::new_();
    let before = t.len_().unwrap_or(0);
    let mut t2 = t.clone();
    t2.add2(x, 0.0);
    t2.len_().unwrap_or(0) > before
}

fn run11<T: Est>(c: &H11, o: &mut Obs) -> TestResult {
    let mut pool: Vec<T> = (0..POOL).map(|_| T::new_()).collect();
    o.evals += 1;
    if let Some(d) = snap_diff(&T::new_().snap(), &T::default_().snap()) {
        return fail("identity:default-differs-from-new", format!("{}: Default::default() and new() report different statistics: {}", T::NAME, d));
    }
    let mut n = [0u64; POOL];
    let mut merges = [0u32; POOL];
    let lens_ok = |pool: &Vec<T>, n: &[u64; POOL], what: &str, o: &mut Obs| -> TestResult {
        for i in 0..POOL {
            if let Some(l) = pool[i].len_() {
                o.evals += 1;
                if l != n[i] {
                    return fail("identity:len", format!("{}: after {} estimator {} reports len {} but absorbed {} observations", T::NAME, what, i, l, n[i]));
                }
                if let Some(e) = pool[i].is_empty_() {
                    o.evals += 1;
                    if e != (l == 0) {
                        return fail("identity:is_empty", format!("{}: is_empty() = {} with len() = {}", T::NAME, e, l));
                    }
                }
            }
        }
        Ok(())
    };
    for (step, op) in c.ops.iter().enumerate() {
        match op {
            Op11::New { i } => {
                let i = i % POOL;
                pool[i] = T::new_();
                n[i] = 0;
                merges[i] = 0;
            }
            Op11::Add { i, x, y } => {
                let i = i % POOL;
                pool[i].add2(*x, *y);
                if accepted::<T>(*x) {
                    n[i] += 1;
                }
            }
            Op11::Merge { i, j } => {
                let (i, j) = (i % POOL, j % POOL);
                if n[i].saturating_add(n[j]) > 1 << 62 {
                    // repeated self-merges double the count; u64 overflow of len() is outside the property
                    continue;
                }
                let b = pool[j].clone();
                let before = b.snap();
                pool[i].merge_(&b);
                o.evals += 1;
                if let Some(d) = snap_diff(&before, &b.snap()) {
                    return fail("identity:argument-modified", format!("{}: merge modified its argument: {}", T::NAME, d));
                }
                n[i] += n[j];
                merges[i] = merges[i].saturating_add(1).saturating_add(merges[j]);
            }
            Op11::Clone { i, j } => {
                let (i, j) = (i % POOL, j % POOL);
                pool[i] = pool[j].clone();
                n[i] = n[j];
                merges[i] = merges[j];
            }
            Op11::SelfMerge { i, times } => {
                let i = i % POOL;
                for _ in 0..*times {
                    if n[i] > 1 << 61 {
                        break;
                    }
                    let b = pool[i].clone();
                    pool[i].merge_(&b);
                    n[i] += n[i];
                    merges[i] = merges[i].saturating_add(1);
                }
            }
        }
        lens_ok(&pool, &n, &format!("step {} ({:?})", step, op), o)?;
        // identity probes on the estimator this step touched (state left behind by the step)
        let t = match op {
            Op11::New { i } | Op11::Add { i, .. } | Op11::Merge { i, .. } | Op11::Clone { i, .. } | Op11::SelfMerge { i, .. } => *i % POOL,
        };
        let sa = pool[t].snap();
        let mut a1 = pool[t].clone();
        a1.merge_(&T::new_());
        o.evals += 2;
        if let Some(d) = snap_diff(&sa, &a1.snap()) {
            return fail("identity:merge-empty-into", format!("{}: after step {} ({:?}) merging a fresh empty estimator into estimator {} ({} observations) changed it: {}", T::NAME, step, op, t, n[t], d));
        }
        let mut e = T::new_();
        e.merge_(&pool[t]);
        if let Some(d) = snap_diff(&sa, &e.snap()) {
            return fail("identity:merge-into-empty", format!("{}: after step {} ({:?}) merging estimator {} ({} observations) into a fresh empty one does not reproduce it: {}", T::NAME, step, op, t, n[t], d));
        }
    }
    // probes
    for i in 0..POOL {
        let a = &pool[i];
        let sa = a.snap();
        // 1: a.merge(&empty) leaves every statistic bit-for-bit unchanged
        let mut a1 = a.clone();
        a1.merge_(&T::new_());
        o.evals += 1;
        if let Some(d) = snap_diff(&sa, &a1.snap()) {
            return fail("identity:merge-empty-into", format!("{}: merging a fresh empty estimator into an estimator holding {} observations changed it: {}", T::NAME, n[i], d));
        }
        // 2: empty.merge(&a) equals a bit-for-bit
        let mut e = T::new_();
        e.merge_(a);
        o.evals += 1;
        if let Some(d) = snap_diff(&sa, &e.snap()) {
            return fail("identity:merge-into-empty", format!("{}: merging an estimator holding {} observations into a fresh empty one does not reproduce it: {}", T::NAME, n[i], d));
        }
        // also with Default::default()
        let mut e2 = T::default_();
        e2.merge_(a);
        if let Some(d) = snap_diff(&sa, &e2.snap()) {
            return fail("identity:merge-into-default", format!("{}: merging into Default::default() does not reproduce the argument: {}", T::NAME, d));
        }
        // 3: lengths add exactly
        for j in 0..POOL {
            let mut ab = a.clone();
            ab.merge_(&pool[j]);
            if let Some(l) = ab.len_() {
                o.evals += 1;
                if l != n[i] + n[j] {
                    return fail("identity:len-add", format!("{}: len(a.merge(b)) = {} but len(a) + len(b) = {} + {}", T::NAME, l, n[i], n[j]));
                }
                if let Some(em) = ab.is_empty_() {
                    if em != (l == 0) {
                        return fail("identity:is_empty", format!("{}: is_empty() = {} with len() = {} after merge", T::NAME, em, l));
                    }
                }
            }
        }
        if merges[i] >= 1 && n[i] >= 3 {
            o.nontrivial = true;
            if !n[i].is_power_of_two() {
                o.class("probed estimator built by merges, n not a power of two");
            }
        }
        if n[i] > 1 << 53 {
            o.class("probed estimator holds more than 2^53 observations");
        }
        if n[i] == 0 && merges[i] > 0 {
            o.class("probed estimator empty but produced by merges");
        }
    }
    o.classf(T::NAME.to_string());
    Ok(())
}

pub struct Identity;
impl Check for Identity {
    type Case = H11;
    fn name(&self) -> &'static str {
        "merge_identity"
    }
    fn fp(&self, c: &H11, h: &mut Fp) {
        h.s(&c.ty).s(&format!("{:?}", c.ops));
    }
    fn test(&self, c: &H11, o: &mut Obs) -> TestResult {
        match est_dispatch!(c.ty.as_str(), run11, c, o) {
            Some(r) => r,
            None => {
                o.discarded = Some("unknown type");
                Ok(())
            }
        }
    }
    fn simplify(&self, c: &H11) -> Vec<H11> {
        (0..c.ops.len())
            .map(|i| {
                let mut s = c.clone();
                s.ops.remove(i);
                s
            })
            .collect()
    }
}

/// a value of the C01 domain
pub fn c01_value() -> impl Strategy<Value = f64> {
    prop_oneof![
        4 => -100.0..100.0f64,
        2 => (-30.0..30.0f64, any::<bool>()).prop_map(|(e, s)| if s { -10f64.powf(e) } else { 10f64.powf(e) }),
        1 => (1e9..1.000001e9f64),
        1 => proptest::sample::select(vec![0.0, -0.0, 1.0, -1.0, 2.5, 1e30, -1e30, 1e-30]),
    ]
}
pub fn weight_value() -> impl Strategy<Value = f64> {
    prop_oneof![1 => Just(0.0), 4 => (-6.0..6.0f64).prop_map(|e| 10f64.powf(e).clamp(1e-6, 1e6)), 1 => Just(1.0)]
}
pub fn second_value(kind: Kind) -> BoxedStrategy<f64> {
    match kind {
        Kind::Weighted => weight_value().boxed(),
        Kind::Xy => c01_value().boxed(),
        _ => Just(0.0).boxed(),
    }
}
pub fn first_value(kind: Kind) -> BoxedStrategy<f64> {
    match kind {
        Kind::Histo => prop_oneof![
            4 => -6.0..6.0f64,
            1 => proptest::sample::select(vec![-1.0, 0.0, 2.5, -5.0, 5.0, 4.0, f64::NAN]),
            // values at and next to the edges k/10 and -1 + 2k/3 of the with_const_width histograms
            3 => (0u8..11, 0u8..3).prop_map(|(k, d)| { let e = k as f64 / 10.0; match d { 0 => e, 1 => crate::hist::next_up(e), _ => crate::hist::next_down(e) } }),
            2 => (0u8..11, 0u8..3).prop_map(|(k, d)| { let e = 0.1 * k as f64; match d { 0 => e, 1 => crate::hist::next_up(e), _ => crate::hist::next_down(e) } }),
            1 => (0u8..4, 0u8..3).prop_map(|(k, d)| { let e = -1.0 + 2.0 * k as f64 / 3.0; match d { 0 => e, 1 => crate::hist::next_up(e), _ => crate::hist::next_down(e) } }),
            2 => 0.0..1.0f64,
        ].boxed(),
        _ => c01_value().boxed(),
    }
}

pub fn op_strategy(kind: Kind) -> impl Strategy<Value = Op11> {
    prop_oneof![
        1 => (0..POOL).prop_map(|i| Op11::New { i }),
        8 => (0..POOL, first_value(kind), second_value(kind)).prop_map(|(i, x, y)| Op11::Add { i, x, y }),
        4 => (0..POOL, 0..POOL).prop_map(|(i, j)| Op11::Merge { i, j }),
        1 => (0..POOL, 0..POOL).prop_map(|(i, j)| Op11::Clone { i, j }),
        1 => (0..POOL, prop_oneof![2 => 1u8..5, 1 => 50u8..62]).prop_map(|(i, times)| Op11::SelfMerge { i, times }),
    ]
}

pub fn exhaustive(ty: &str) -> Vec<H11> {
    let vals = [(1.5, 1.0), (-2.0, 0.0), (1e9, 2.0)];
    let mut alphabet: Vec<Op11> = Vec::new();
    for i in 0..2 {
        alphabet.push(Op11::New { i });
        for &(x, y) in &vals {
            alphabet.push(Op11::Add { i, x, y });
        }
        for j in 0..2 {
            alphabet.push(Op11::Merge { i, j });
        }
        alphabet.push(Op11::Clone { i, j: 1 - i });
    }
    let k = alphabet.len();
    let mut out = vec![H11 { ty: ty.to_string(), ops: vec![] }];
    for len in 1..=3usize {
        for mut idx in 0..k.pow(len as u32) {
            let mut ops = Vec::with_capacity(len);
            for _ in 0..len {
                ops.push(alphabet[idx % k].clone());
                idx /= k;
            }
            out.push(H11 { ty: ty.to_string(), ops });
        }
    }
    out
}

pub fn run(cx: &Ctx) {
    cx.set_rule("cases = (type, history over a pool of three estimators: New(i), Add(i, x[, y]), Merge(i, j) incl. self-merge, Clone(i<-j)), for Mean, Variance, Skewness, Kurtosis, Moments4, harness-instantiated orders 6 and 10, Min, Max, WeightedMean, WeightedMeanWithError, Covariance and macro histograms (LEN 3 with a zero-width bin, LEN 10); after every step len()/is_empty() against the model; then for every pool member a: (1) a.merge(&new()) leaves the snapshot (every public accessor, as bit patterns) unchanged, (2) new().merge(&a) and default().merge(&a) reproduce a's snapshot bit-for-bit, (3) len(a.merge(b)) = len(a)+len(b) for every b in the pool; the argument's snapshot is unchanged by every merge. Exhaustive: all histories of <= 3 operations over a pool of two and three (value, weight) symbols, every type. Non-trivial = a probed estimator was itself produced by >= 1 merge and holds >= 3 observations; distinct = hash of (type, history)");
    cx.label("exhaustive");
    let mut all = Vec::new();
    for ty in MERGE_TYPES {
        all.extend(exhaustive(ty));
    }
    let total = all.len() as u64;
    cx.run_enum(&Identity, total, |i| Some(all[i as usize].clone()), "all histories of 0..=3 operations over 2 estimators x 3 symbols, 14 types");
    cx.label("generated");
    for ty in MERGE_TYPES {
        let kind = kind_of(ty);
        let ty = ty.to_string();
        let max_ops = cx.by(30, 80);
        cx.run_pt(&Identity, cx.by(800, 40000), cx.workers.min(8), move || {
            let ty = ty.clone();
            vec(op_strategy(kind), 0..max_ops).prop_map(move |ops| H11 { ty: ty.clone(), ops })
        }, "histories of 0..30 (thorough 80) operations over 3 estimators, values over the C01 domain");
    }
}

pub fn replay(check: &str, case: &serde_json::Value) -> Option<Result<(), String>> {
    match check {
        "merge_identity" => Some(replay_case(&Identity, case)),
        _ => None,
    }
}
