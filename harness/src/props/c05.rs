//! C05 — Quantile follows the P-square algorithm exactly once five observations are in.
use crate::engine::*;
use crate::p2ref::P2;
use average::{Estimate, Quantile};
use proptest::collection::vec;
use proptest::prelude::*;
use serde::{Deserialize, Serialize};

#[derive(Clone, Debug, Serialize, Deserialize)]
pub struct QStream {
    #[serde(with = "fstr")]
    pub p: f64,
    #[serde(with = "fvec")]
    pub xs: Vec<f64>,
}

/// Publicly serialised marker state: (heights, positions), if observable.
pub fn markers(q: &Quantile) -> Option<(Vec<f64>, Vec<i64>)> {
    let v = serde_json::to_value(q).ok()?;
    let qs: Vec<f64> = v.get("q")?.as_array()?.iter().map(|x| x.as_f64()).collect::<Option<_>>()?;
    let ns: Vec<i64> = v.get("n")?.as_array()?.iter().map(|x| x.as_i64()).collect::<Option<_>>()?;
    if qs.len() == 5 && ns.len() == 5 {
        Some((qs, ns))
    } else {
        None
    }
}

pub struct P2Diff;
impl Check for P2Diff {
    type Case = QStream;
    fn name(&self) -> &'static str {
        "p2_differential"
    }
    fn fp(&self, c: &QStream, h: &mut Fp) {
        h.f(c.p).fs(&c.xs);
    }
    fn test(&self, c: &QStream, o: &mut Obs) -> TestResult {
        if !(c.p >= 0.0 && c.p <= 1.0) || c.xs.iter().any(|x| !x.is_finite()) {
            o.discarded = Some("p outside [0,1] or non-finite observation");
            return Ok(());
        }
        let mut q = Quantile::new(c.p);
        let mut m = P2::new(c.p);
        let mut observable = true;
        for (i, &x) in c.xs.iter().enumerate() {
            q.add(x);
            m.add(x);
            if i < 4 {
                continue;
            }
            if m.ambiguous {
                o.class("stopped at an ambiguous (within-rounding) decision");
                break;
            }
            let tol = (64.0 * f64::EPSILON * m.scale()).max(1e-10 * m.range());
            let got = q.quantile();
            o.evals += 1;
            if !((got - m.quantile()).abs() <= tol) {
                return fail(
                    "p2:quantile",
                    format!("after observation {} (x = {:?}) quantile() = {:?} but the P-square middle marker is {:?} (p = {:?}, tolerance {:e})", i + 1, x, got, m.quantile(), c.p, tol),
                );
            }
            if observable {
                match markers(&q) {
                    None => {
                        observable = false;
                        o.class("marker state not observable");
                    }
                    Some((qs, ns)) => {
                        o.evals += 1;
                        if ns[..] != m.n[1..6] {
                            return fail("p2:positions", format!("after observation {} marker positions are {:?} but P-square prescribes {:?} (first must be 1, last {})", i + 1, ns, &m.n[1..6], i + 1));
                        }
                        for j in 0..5 {
                            if !((qs[j] - m.q[j + 1]).abs() <= tol) {
                                return fail("p2:heights", format!("after observation {} marker heights are {:?} but P-square prescribes {:?}", i + 1, qs, &m.q[1..6]));
                            }
                        }
                    }
                }
            }
        }
        if m.new_min > 0 {
            o.class("new minimum after initialisation");
        }
        if m.new_max > 0 {
            o.class("new maximum after initialisation");
        }
        if m.ties > 0 {
            o.class("observation ties with a marker");
        }
        if m.parabolic > 0 {
            o.class("parabolic adjustment");
        }
        if m.linear > 0 {
            o.class("linear adjustment");
        }
        o.nontrivial = c.xs.len() >= 6 && (m.new_min > 0 || m.ties > 0 || m.linear > 0) && (m.parabolic + m.linear > 0);
        Ok(())
    }
    fn simplify(&self, c: &QStream) -> Vec<QStream> {
        let mut out = Vec::new();
        let n = c.xs.len();
        if n > 5 {
            out.push(QStream { p: c.p, xs: c.xs[..n - 1].to_vec() });
            if n <= 40 {
                for i in 0..n {
                    let mut xs = c.xs.clone();
                    xs.remove(i);
                    out.push(QStream { p: c.p, xs });
                }
            }
        }
        let r: Vec<f64> = c.xs.iter().map(|&x| super::common::round_sig(x, 2)).collect();
        if r.iter().zip(&c.xs).any(|(a, b)| a.to_bits() != b.to_bits()) {
            out.push(QStream { p: c.p, xs: r });
        }
        if c.p != 0.5 {
            out.push(QStream { p: 0.5, xs: c.xs.clone() });
        }
        out
    }
}

/// Derived relation: on arithmetic progressions the estimate tracks the true
/// quantile equally well in both directions.
#[derive(Clone, Debug, Serialize, Deserialize)]
pub struct Mono {
    #[serde(with = "fstr")]
    pub p: f64,
    pub n: usize,
    #[serde(with = "fstr")]
    pub a: f64,
    #[serde(with = "fstr")]
    pub b: f64,
    pub decreasing: bool,
}
pub struct MonoTrack;
impl Check for MonoTrack {
    type Case = Mono;
    fn name(&self) -> &'static str {
        "monotone_tracking"
    }
    fn fp(&self, c: &Mono, h: &mut Fp) {
        h.f(c.p).u(c.n as u64).f(c.a).f(c.b).u(c.decreasing as u64);
    }
    fn test(&self, c: &Mono, o: &mut Obs) -> TestResult {
        if c.n < 50 || !(c.p >= 0.05 && c.p <= 0.95) || c.a == 0.0 || !c.a.is_finite() || !c.b.is_finite() {
            o.discarded = Some("outside the monotone-tracking domain");
            return Ok(());
        }
        let mut q = Quantile::new(c.p);
        for i in 0..c.n {
            let k = if c.decreasing { c.n - 1 - i } else { i };
            q.add(c.a * k as f64 + c.b);
        }
        // with a < 0 the order of the values is reversed
        let pp = if c.a > 0.0 { c.p } else { 1.0 - c.p };
        let truth = c.a * (pp * (c.n as f64 - 1.0)) + c.b;
        let range = c.a.abs() * (c.n as f64 - 1.0);
        let err = (q.quantile() - truth).abs() / range;
        o.evals += 1;
        o.hard(err / 0.10);
        o.nontrivial = true;
        let rising = c.decreasing == (c.a < 0.0);
        o.class(if rising { "values increasing" } else { "values decreasing (new minima keep arriving)" });
        if !(err <= 0.10) {
            return fail("p2:monotone-tracking", format!("{} arithmetic progression of {} values, p = {}: estimate {:?} is {:.3} ranges away from the true quantile {:?}", if rising { "increasing" } else { "decreasing" }, c.n, c.p, q.quantile(), err, truth));
        }
        Ok(())
    }
}

pub const P_GRID: [f64; 8] = [0.0, 1.0, 0.5, 0.1, 0.2, 0.25, 0.9, 0.99];

pub fn p_strategy() -> impl Strategy<Value = f64> {
    prop_oneof![
        3 => proptest::sample::select(P_GRID.to_vec()),
        2 => 0.0..=1.0f64,
    ]
}

/// the nine stream kinds of DESIGN.md (C05)
pub fn stream_values(kind: usize, raw: &[f64]) -> Vec<f64> {
    use crate::gen::probit;
    let n = raw.len();
    (0..n)
        .map(|i| {
            let u = raw[i];
            match kind {
                0 => probit(u),
                1 => i as f64,
                2 => -(i as f64),
                3 => (u * 4.0).floor(),
                4 => if i % 2 == 0 { i as f64 } else { -(i as f64) },
                5 => (i as f64) * 0.01 + probit(u),
                6 => 3.0,
                7 => (probit(u) * 3.0).exp() * 1e10,
                8 => (u * 3.0).floor() * 0.5 + if u > 0.97 { probit(u) } else { 0.0 },
                10 => [-2.0, -1.0, -0.0, 0.0, 1.0, 2.0][((u * 6.0) as usize).min(5)],
                _ => -(i as f64) * 0.02 + probit(u),
            }
        })
        .collect()
}
pub const KINDS: usize = 11;

pub fn stream_strategy(max_len: usize) -> impl Strategy<Value = QStream> {
    let lens = prop_oneof![
        3 => vec(0.0..1.0f64, 5..16),
        3 => vec(0.0..1.0f64, 16..120),
        2 => vec(0.0..1.0f64, 120..(max_len.max(121) + 1)),
    ];
    // scale by an exact power of two: the algorithm is scale-equivariant, the magnitudes are not
    let scale = prop_oneof![5 => Just(0i32), 1 => proptest::sample::select(vec![-900i32, -600, -300, -100, 100, 300, 600, 900])];
    (p_strategy(), 0..KINDS, lens, scale).prop_map(|(p, kind, raw, k)| {
        let f = 2f64.powi(k);
        QStream { p, xs: stream_values(kind, &raw).into_iter().map(|x| x * f).collect() }
    })
}

/// i-th stream of length `len` over `alpha`
pub fn alphabet_stream(alpha: &[f64], len: usize, mut i: u64) -> Vec<f64> {
    let k = alpha.len() as u64;
    (0..len)
        .map(|_| {
            let d = (i % k) as usize;
            i /= k;
            alpha[d]
        })
        .collect()
}

pub const ALPHA2: [f64; 2] = [0.0, 1.0];
pub const ALPHA3: [f64; 3] = [-1.0, 0.0, 2.5];
pub const ALPHA4: [f64; 4] = [0.0, 1.0, 3.0, 7.0];
pub const ALPHA5: [f64; 5] = [-4.0, -1.0, 0.0, 0.5, 6.0];
/// both zeros: P-square compares numerically, so -0.0 ties with a marker at +0.0 and goes to the cell above
pub const ALPHAZ: [f64; 4] = [-1.0, -0.0, 0.0, 1.0];

pub fn exhaustive_plan(cx: &Ctx) -> Vec<(&'static [f64], usize)> {
    if cx.thorough() {
        vec![(&ALPHA2[..], 20), (&ALPHA3[..], 13), (&ALPHA4[..], 10), (&ALPHA5[..], 8), (&ALPHAZ[..], 10)]
    } else {
        vec![(&ALPHA2[..], 13), (&ALPHA3[..], 9), (&ALPHA4[..], 7), (&ALPHA5[..], 6), (&ALPHAZ[..], 7)]
    }
}

pub fn paper_example() -> Vec<QStream> {
    let obs = vec![0.02, 0.5, 0.74, 3.39, 0.83, 22.37, 10.15, 15.43, 38.62, 15.92, 34.60, 10.28, 1.47, 0.40, 0.05, 11.39, 0.27, 0.42, 0.09, 11.37];
    let mut v = Vec::new();
    for &p in P_GRID.iter() {
        v.push(QStream { p, xs: obs.clone() });
        let mut r = obs.clone();
        r.reverse();
        v.push(QStream { p, xs: r });
        v.push(QStream { p, xs: (0..1000).rev().map(|i| i as f64).collect() });
        v.push(QStream { p, xs: (0..1000).map(|i| i as f64).collect() });
        for k in [-900, -600, 600, 900] {
            v.push(QStream { p, xs: obs.iter().map(|x| x * 2f64.powi(k)).collect() });
        }
    }
    v
}

pub fn run(cx: &Ctx) {
    cx.set_rule("cases = (p, stream): p from {0, 1, 0.5, 0.1, 0.2, 0.25, 0.9, 0.99} or uniform in [0,1]; streams = exhaustively every stream over alphabets of 2, 3, 4, 5 values (one of them {-1, -0.0, +0.0, 1}) up to a length bound (ties everywhere), random streams of 10 kinds, one in six scaled by an exact power of two 2^±100…2^±900 (normal, increasing, decreasing, small alphabet, zig-zag, trending up/down, constant, heavy-tailed x 1e10, heavy duplicates, a six-value alphabet with both signed zeros), the paper's 20 observations; after EVERY observation from the fifth on, quantile() and the publicly serialised marker heights/positions are compared with an independent transcription of Jain & Chlamtac's algorithm (tolerance max(64 ulp, 1e-10 range); comparison of a stream stops at the first decision of the reference that is within rounding of flipping). Plus the derived relation: arithmetic progressions fed increasing and decreasing are tracked within 0.10 range in both directions. Non-trivial = length >= 6, at least one marker adjustment, and a new minimum after initialisation, a tie with a marker or a linear-fallback adjustment; distinct = hash of (p bits, stream bits)");
    cx.assume("reference model: harness/src/p2ref.rs, transcribed from the 1985 paper, not from the implementation");
    cx.assume("marker state is read from the serde representation (fields q and n); if those are not present the state comparison is skipped and counted");
    cx.label("fixed");
    cx.run_list(&P2Diff, paper_example(), "paper example + monotone 1000-element streams x p grid");
    for (alpha, len) in exhaustive_plan(cx) {
        cx.label(&format!("exhaustive-{}-values{}", alpha.len(), if alpha.iter().any(|a| a.to_bits() == (-0.0f64).to_bits()) { "-signed-zeros" } else { "" }));
        let total = (alpha.len() as u64).pow(len as u32) * P_GRID.len() as u64;
        let np = P_GRID.len() as u64;
        cx.run_enum(&P2Diff, total, |i| Some(QStream { p: P_GRID[(i % np) as usize], xs: alphabet_stream(alpha, len, i / np) }), &format!("all streams of length {} (every prefix checked) over {}-value alphabets x 8 values of p", len, alpha.len()));
    }
    // bookkeeping: the three enumerations share one sub-check entry
    let w = cx.workers;
    let cases = cx.by(3000, 30000);
    let max_len = cx.by(2000, 20000);
    cx.label("generated");
    cx.run_pt(&P2Diff, cases, w, move || stream_strategy(max_len), "random streams of 10 kinds, length 5..=20000 (quick 2000); exhaustive alphabets: 2 values x length 20 (quick 13), 3 x 13 (9), 4 x 10 (7), 5 x 8 (6)");
    let mono = || (0.05..=0.95f64, 50usize..10000, prop_oneof![0.001..1000.0f64, -1000.0..-0.001f64], -1e6..1e6f64, any::<bool>()).prop_map(|(p, n, a, b, decreasing)| Mono { p, n, a, b, decreasing });
    cx.run_pt(&MonoTrack, cx.by(300, 3000), w, mono, "arithmetic progressions n 50..10000, p in [0.05,0.95], both directions");
}

pub fn replay(check: &str, case: &serde_json::Value) -> Option<Result<(), String>> {
    match check {
        "p2_differential" => Some(replay_case(&P2Diff, case)),
        "monotone_tracking" => Some(replay_case(&MonoTrack, case)),
        _ => None,
    }
}
