//! C01 — streaming mean and variance equal the exact statistics of the data.
use super::common::*;
use crate::engine::*;
use crate::gen;
use crate::oracle::*;
use average::{Mean, Variance};
use proptest::prelude::*;
use std::marker::PhantomData;

fn rule(ex: &Exact) -> bool {
    ex.n >= 2 && !ex.zero_spread
}

pub fn mean_check() -> Stream<Mean> {
    Stream { name: "mean_stream", min_n: 1, rule, _p: PhantomData }
}
pub fn var_check() -> Stream<Variance> {
    Stream { name: "variance_stream", min_n: 1, rule, _p: PhantomData }
}

/// data on which the textbook sum-of-squares formula loses every digit
pub fn killers() -> Vec<Xs> {
    let mut v = Vec::new();
    for &off in &[1e9, 1e10, 1e11, 3e11] {
        for &n in &[4usize, 10, 100, 1000] {
            for &scale in &[1.0, 1e-20, 1e15] {
                for pat in 0..3 {
                    let xs: Vec<f64> = (0..n)
                        .map(|i| {
                            let d = match pat {
                                0 => (i % 3) as f64,
                                1 => i as f64 * 4.0 / n as f64,
                                _ => if i % 2 == 0 { 0.5 } else { 2.5 },
                            };
                            scale * (off + d)
                        })
                        .collect();
                    v.push(Xs { xs });
                }
            }
        }
    }
    v
}

pub fn mutate_xs(c: &Xs, r: &mut Sm) -> Xs {
    let mut ys = c.xs.clone();
    let n = ys.len();
    if n == 0 {
        return c.clone();
    }
    let i = r.below(n as u64) as usize;
    match r.below(5) {
        0 => {
            let j = r.below(n as u64) as usize;
            ys.swap(i, j);
        }
        1 => {
            ys[i] = f64::from_bits(ys[i].to_bits().wrapping_add(r.below(5)).wrapping_sub(2));
        }
        2 => {
            ys[i] *= 1.0 + r.normal() * 1e-3;
        }
        3 => {
            let j = r.below(n as u64) as usize;
            ys[i] = ys[j];
        }
        _ => {
            let m = ys.iter().sum::<f64>() / n as f64;
            ys[i] = m + (ys[i] - m) * (1.0 + r.normal() * 0.3);
        }
    }
    Xs { xs: ys }
}

/// starting points of the hill-climber: small data sets of every shape
pub fn climb_starts(cx: &Ctx, count: usize, salt: u64) -> Vec<Xs> {
    let mut r = Sm(cx.seed ^ salt);
    let mut v = Vec::new();
    for k in 0..count {
        let n = [2usize, 3, 5, 12, 40, 150][k % 6];
        let raw: Vec<f64> = (0..n).map(|_| r.f()).collect();
        let pl = gen::Placement {
            shape: r.below(gen::SHAPES as u64) as usize,
            order: r.below(gen::ORDERS as u64) as usize,
            ls: r.range(-15.0, 15.0),
            lk: if r.below(4) == 0 { None } else { Some([0.0, 3.0, 6.0, 9.0, 11.5][r.below(5) as usize]) },
            neg: r.below(2) == 0,
        };
        v.push(Xs { xs: gen::build_dataset(&raw, &pl) });
    }
    v
}

pub fn run(cx: &Ctx) {
    cx.set_rule("cases = data sets built by construction inside the C01 domain (13 shapes x 6 orderings x scale 10^U(-15,15) x offset up to 10^12 spreads), fed one observation at a time to Mean and to Variance and judged accessor by accessor against exact rational statistics with the DESIGN.md 4.1 envelopes; plus a fixed family of textbook-killer data (offset 1e9..3e11 spreads); thorough adds 1e5/1e6-element data and hill-climbing on error/envelope. Non-trivial = n >= 2 with non-zero spread; distinct = hash of (check, exact bit patterns of the sequence)");
    cx.assume("exact oracle: hand-written big-integer arithmetic + double-double final division (self-tested against Python fractions)");
    cx.assume("inputs outside the C01 domain (kappa > 1e12, |x| outside {0} U [1e-30,1e30]) are discarded and counted, never judged");
    let w = cx.workers;
    let (mid, big) = (3000, cx.by(12000, 30000));
    let cases = cx.by(2000, 40000);
    let strat = move || gen::dataset(1, mid, big, 11.9).prop_map(|xs| Xs { xs });
    let bounds = "n 1..=30000 (quick 12000), kappa <= 1e12";
    cx.label("generated");
    cx.run_pt(&mean_check(), cases, w, strat, bounds);
    cx.run_pt(&var_check(), cases, w, strat, bounds);
    cx.label("textbook-killers");
    cx.run_list(&var_check(), killers(), "textbook-killer family: offset/spread 1e9..3e11, n 4..1000, 3 scales");
    cx.run_list(&mean_check(), killers(), "textbook-killer family");
    if cx.thorough() {
        let bulk = |n: usize| {
            move || (any::<u64>(), gen::placement(11.9)).prop_map(move |(seed, pl)| Xs { xs: gen::bulk_dataset(n, seed, &pl) })
        };
        cx.label("bulk");
        cx.run_pt(&var_check(), 4, w, bulk(100_000), "bulk n = 1e5");
        cx.run_pt(&var_check(), 1, 8, bulk(1_000_000), "bulk n = 1e6");
        cx.run_pt(&mean_check(), 1, 4, bulk(1_000_000), "bulk n = 1e6");
        cx.label("search");
        cx.run_climb(&var_check(), climb_starts(cx, 256, 0xC01), 6000, mutate_xs, "hill-climb on error/envelope, 256 starts x 6000 steps");
        cx.run_climb(&mean_check(), climb_starts(cx, 128, 0xC01A), 6000, mutate_xs, "hill-climb, 128 starts x 6000 steps");
    }
}

pub fn replay(check: &str, case: &serde_json::Value) -> Option<Result<(), String>> {
    match check {
        "mean_stream" => Some(replay_case(&mean_check(), case)),
        "variance_stream" => Some(replay_case(&var_check(), case)),
        _ => None,
    }
}
