//! C01 — streaming mean and variance equal the exact statistics of the data.
use super::common::*;
use crate::engine::*;
use crate::gen;
use crate::oracle::*;
use average::{Mean, Variance};
use proptest::prelude::*;
use std::marker::PhantomData;

fn rule(ex: &Exact) -> bool {
    ex.n >= 2 && !ex.zero_spread
}

pub fn mean_check() -> Stream<Mean> {
    Stream { name: "mean_stream", min_n: 1, rule, _p: PhantomData }
}
pub fn var_check() -> Stream<Variance> {
    Stream { name: "variance_stream", min_n: 1, rule, _p: PhantomData }
}

/// data on which the textbook sum-of-squares formula loses every digit
pub fn killers() -> Vec<Xs> {
    let mut v = Vec::new();
    for &off in &[1e9, 1e10, 1e11, 3e11] {
        for &n in &[4usize, 10, 100, 1000] {
            for &scale in &[1.0, 1e-20, 1e15] {
                for pat in 0..3 {
                    let xs: Vec<f64> = (0..n)
                        .map(|i| {
                            let d = match pat {
                                0 => (i % 3) as f64,
                                1 => i as f64 * 4.0 / n as f64,
                                _ => if i % 2 == 0 { 0.5 } else { 2.5 },
                            };
                            scale * (off + d)
                        })
                        .collect();
                    v.push(Xs { xs });
                }
            }
        }
    }
    v
}

pub fn mutate_xs(c: &Xs, r: &mut Sm) -> Xs {
    let mut ys = c.xs.clone();
    let n = ys.len();
    if n == 0 {
        return c.clone();
    }
    let i = r.below(n as u64) as usize;
    match r.below(5) {
        0 => {
            let j = r.below(n as u64) as usize;
            ys.swap(i, j);
        }
        1 => {
            ys[i] = f64::from_bits(ys[i].to_bits().wrapping_add(r.below(5)).wrapping_sub(2));
        }
        2 => {
            ys[i] *= 1.0 + r.normal() * 1e-3;
        }
        3 => {
            let j = r.below(n as u64) as usize;
            ys[i] = ys[j];
        }
        _ => {
            let m = ys.iter().sum::<f64>() / n as f64;
            ys[i] = m + (ys[i] - m) * (1.0 + r.normal() * 0.3);
        }
    }
    Xs { xs: ys }
}

/// starting points of the hill-climber: small data sets of every shape
pub fn climb_starts(cx: &Ctx, count: usize, salt: u64) -> Vec<Xs> {
    let mut r = Sm(cx.seed ^ salt);
    let mut v = Vec::new();
    for k in 0..count {
        let n = [2usize, 3, 5, 12, 40, 150][k % 6];
        let raw: Vec<f64> = (0..n).map(|_| r.f()).collect();
        let pl = gen::Placement {
            shape: r.below(gen::SHAPES as u64) as usize,
            order: r.below(gen::ORDERS as u64) as usize,
            ls: r.range(-15.0, 15.0),
            lk: if r.below(4) == 0 { None } else { Some([0.0, 3.0, 6.0, 9.0, 11.5][r.below(5) as usize]) },
            neg: r.below(2) == 0,
        };
        v.push(Xs { xs: gen::build_dataset(&raw, &pl) });
    }
    v
}

/// The same envelope for estimators built through Extend (by value / by reference, in
/// chunks) and FromIterator — stronger than C01 asks for (which speaks of add), but these
/// paths are required to be equivalent to the add loop (C20), so it cannot alarm falsely.
pub struct ExtendPath;
impl Check for ExtendPath {
    type Case = super::c02::Chunked;
    fn name(&self) -> &'static str {
        "variance_extend_chunks"
    }
    fn fp(&self, c: &Self::Case, h: &mut Fp) {
        h.fs(&c.xs).us(&c.cuts);
    }
    fn test(&self, c: &Self::Case, o: &mut Obs) -> TestResult {
        use crate::types::Uni;
        let ex = match c01_gate(&c.xs, 2, 1, o) {
            Some(e) => e,
            None => return Ok(()),
        };
        let n = c.xs.len();
        let mut b = vec![0usize];
        b.extend(c.cuts.iter().map(|&k| k.min(n)));
        b.push(n);
        b.sort();
        let (mut v, mut m) = (Variance::new(), Mean::new());
        for (k, w) in b.windows(2).enumerate() {
            let seg = &c.xs[w[0]..w[1]];
            if k % 2 == 0 {
                v.extend(seg.iter());
                m.extend(seg.iter().copied());
            } else {
                v.extend(seg.iter().copied());
                m.extend(seg.iter());
            }
        }
        o.nontrivial = ex.n >= 2 && !c.cuts.is_empty();
        o.classf(kappa_bucket(ex.kappa()));
        v.judge(&ex, o)?;
        m.judge(&ex, o)?;
        let vc: Variance = c.xs.iter().collect();
        vc.judge(&ex, o)
    }
}

pub fn run(cx: &Ctx) {
    cx.set_rule("cases = data sets built by construction inside the C01 domain (13 shapes x 6 orderings x scale 10^U(-15,15) x offset up to 10^12 spreads), fed one observation at a time to Mean and to Variance and judged accessor by accessor against exact rational statistics with the DESIGN.md 4.1 envelopes; plus a fixed family of textbook-killer data (offset 1e9..3e11 spreads); thorough adds 1e5/1e6-element data and hill-climbing on error/envelope. Non-trivial = n >= 2 with non-zero spread; distinct = hash of (check, exact bit patterns of the sequence)");
    cx.assume("exact oracle: hand-written big-integer arithmetic + double-double final division (self-tested against Python fractions)");
    cx.assume("inputs outside the C01 domain (kappa > 1e12, |x| outside {0} U [1e-30,1e30]) are discarded and counted, never judged");
    let w = cx.workers;
    let (mid, big) = (3000, cx.by(12000, 30000));
    let cases = cx.by(2000, 40000);
    let strat = move || gen::dataset(1, mid, big, 11.9).prop_map(|xs| Xs { xs });
    let bounds = "n 1..=30000 (quick 12000), kappa <= 1e12";
    cx.label("generated");
    cx.run_pt(&mean_check(), cases, w, strat, bounds);
    cx.run_pt(&var_check(), cases, w, strat, bounds);
    cx.label("extend");
    let ext = move || (gen::dataset(1, 3000, 3000, 11.9), gen::cut_mode()).prop_map(|(xs, cm)| {
        let cuts = gen::make_cuts(&cm, xs.len());
        super::c02::Chunked { xs, cuts, merges: vec![] }
    });
    cx.run_pt(&ExtendPath, cx.by(600, 8000), w, ext, "Variance/Mean built by extend (value/reference alternating) over random chunkings, and by collect");
    let kext: Vec<super::c02::Chunked> = killers().into_iter().flat_map(|k| {
        let n = k.xs.len();
        vec![super::c02::Chunked { xs: k.xs.clone(), cuts: vec![], merges: vec![] }, super::c02::Chunked { xs: k.xs, cuts: vec![n / 2], merges: vec![] }]
    }).collect();
    cx.run_list(&ExtendPath, kext, "textbook-killer family through extend (whole and in two pieces)");
    // histories longer than 2^16 and 2^17 in the every-change tier too (counts that no longer fit 16/32-bit
    // intermediates, products of counts)
    cx.label("long-history");
    let long: Vec<Xs> = [(66_000usize, 1u64, 3.0f64), (131_100, 2, 0.0), (262_200, 3, 6.0)].iter().map(|&(n, seed, lk)| Xs { xs: gen::bulk_dataset(n, seed, &gen::Placement { shape: 1, order: 0, ls: 0.0, lk: Some(lk), neg: false }) }).collect();
    cx.run_list(&var_check(), long.clone(), "three data sets of 66 000, 131 100 and 262 200 observations");
    cx.run_list(&mean_check(), long, "three data sets of 66 000, 131 100 and 262 200 observations");
    cx.label("textbook-killers");
    cx.run_list(&var_check(), killers(), "textbook-killer family: offset/spread 1e9..3e11, n 4..1000, 3 scales");
    cx.run_list(&mean_check(), killers(), "textbook-killer family");
    if cx.thorough() {
        let bulk = |n: usize| {
            move || (any::<u64>(), gen::placement(11.9)).prop_map(move |(seed, pl)| Xs { xs: gen::bulk_dataset(n, seed, &pl) })
        };
        cx.label("bulk");
        cx.run_pt(&var_check(), 4, w, bulk(100_000), "bulk n = 1e5");
        cx.run_pt(&var_check(), 1, 8, bulk(1_000_000), "bulk n = 1e6");
        cx.run_pt(&mean_check(), 1, 4, bulk(1_000_000), "bulk n = 1e6");
        cx.label("search");
        cx.run_climb(&var_check(), climb_starts(cx, 256, 0xC01), 6000, mutate_xs, "hill-climb on error/envelope, 256 starts x 6000 steps");
        cx.run_climb(&mean_check(), climb_starts(cx, 128, 0xC01A), 6000, mutate_xs, "hill-climb, 128 starts x 6000 steps");
    }
}

pub fn replay(check: &str, case: &serde_json::Value) -> Option<Result<(), String>> {
    match check {
        "mean_stream" => Some(replay_case(&mean_check(), case)),
        "variance_stream" => Some(replay_case(&var_check(), case)),
        "variance_extend_chunks" => Some(replay_case(&ExtendPath, case)),
        _ => None,
    }
}
