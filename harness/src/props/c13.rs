//! C13 — histogram merge, +=, *=, reset and views are exact bin-wise operations.
use crate::engine::*;
use crate::hist::*;
use crate::hist_dispatch;
use proptest::collection::vec;
use proptest::prelude::*;
use serde::{Deserialize, Serialize};

#[derive(Clone, Debug, Serialize, Deserialize)]
pub enum Op {
    Add { h: usize, x: String },
    Merge { dst: usize, src: usize },
    AddAssign { dst: usize, src: usize },
    Mul { h: usize, k: u64 },
    Reset { h: usize },
    Clone { dst: usize, src: usize },
}

/// pool: histograms 0,1,2 on edges_a, histogram 3 on edges_b
#[derive(Clone, Debug, Serialize, Deserialize)]
pub struct History {
    pub imp: String,
    pub len: usize,
    #[serde(with = "fvec")]
    pub edges_a: Vec<f64>,
    #[serde(with = "fvec")]
    pub edges_b: Vec<f64>,
    pub ops: Vec<Op>,
}

const LIMIT: u64 = 1 << 56;

fn same_f(a: f64, b: f64) -> bool {
    a.to_bits() == b.to_bits() || (a.is_nan() && b.is_nan())
}

fn check_views<H: Hist>(h: &H, counts: &[u64], edges: &[f64], who: &str, o: &mut Obs) -> TestResult {
    let items = h.items();
    let items2 = h.items_via_iter_method();
    o.evals += 1;
    if items.len() != H::LEN || items2.len() != H::LEN {
        return fail("views:iter-len", format!("{}: iteration yields {} / {} items for LEN = {}", who, items.len(), items2.len(), H::LEN));
    }
    let total: u64 = counts.iter().sum();
    // the iterators obey the Iterator protocol: nth / skip / step_by / count / last / size_hint agree with
    // next()-by-next() iteration (quadratic in LEN, so LEN = 100 is probed on one state in seven)
    if H::LEN <= 10 || total % 7 == 0 {
        o.evals += 1;
        if let Err(m) = h.iter_protocol() {
            return fail("views:iterator-protocol", format!("{}: {}", who, m));
        }
    }
    let (w, c, nb, vs) = (h.widths(), h.centers(), h.normalized_bins(), h.variances());
    if w.len() != H::LEN || c.len() != H::LEN || nb.len() != H::LEN || vs.len() != H::LEN {
        return fail("views:len", format!("{}: views yield {}/{}/{}/{} items for LEN = {}", who, w.len(), c.len(), nb.len(), vs.len(), H::LEN));
    }
    for i in 0..H::LEN {
        let (lo, hi) = (edges[i], edges[i + 1]);
        for it in [&items[i], &items2[i]] {
            if it.0 .0.to_bits() != lo.to_bits() || it.0 .1.to_bits() != hi.to_bits() || it.1 != counts[i] {
                return fail("views:iter", format!("{}: item {} is {:?}, expected (({:?}, {:?}), {})", who, i, it, lo, hi, counts[i]));
            }
        }
        o.evals += 5;
        if !same_f(w[i], hi - lo) {
            return fail("views:widths", format!("{}: widths[{}] = {:?}, upper-lower = {:?} for bin ({:?},{:?})", who, i, w[i], hi - lo, lo, hi));
        }
        if !same_f(c[i], (lo + hi) / 2.0) {
            return fail("views:centers", format!("{}: centers[{}] = {:?}, (lower+upper)/2 = {:?} for bin ({:?},{:?})", who, i, c[i], (lo + hi) / 2.0, lo, hi));
        }
        let want_n = counts[i] as f64 / (hi - lo);
        if !same_f(nb[i], want_n) {
            return fail("views:normalized", format!("{}: normalized_bins[{}] = {:?}, count/width = {:?} for count {} in bin ({:?},{:?})", who, i, nb[i], want_n, counts[i], lo, hi));
        }
        let v1 = match no_panic(|| h.variance(i)) {
            Ok(v) => v,
            Err(m) => return fail("views:panic", format!("{}: variance({}) panicked: {}", who, i, m)),
        };
        let cf = counts[i] as f64;
        let tol = 4.0 * f64::EPSILON * cf.max(1.0);
        if total > 0 {
            let want = cf * (1.0 - cf / total as f64);
            if !((v1 - want).abs() <= tol) {
                return fail("views:variance", format!("{}: variance({}) = {:?}, count*(1-count/total) = {:?} (count {}, total {})", who, i, v1, want, counts[i], total));
            }
            if !((vs[i] - want).abs() <= tol) {
                return fail("views:variances", format!("{}: variances()[{}] = {:?}, count*(1-count/total) = {:?} (count {}, total {})", who, i, vs[i], want, counts[i], total));
            }
        }
        if !((v1 - vs[i]).abs() <= tol || (v1.is_nan() && vs[i].is_nan())) {
            return fail("views:variance-agree", format!("{}: variance({}) = {:?} but variances()[{}] = {:?}", who, i, v1, i, vs[i]));
        }
    }
    Ok(())
}

fn bits(v: &[f64]) -> Vec<u64> {
    v.iter().map(|x| x.to_bits()).collect()
}

fn run_history<H: Hist>(c: &History, o: &mut Obs) -> TestResult {
    let mk = |e: &[f64]| no_panic(|| H::from_ranges(e));
    let (ha, hb) = match (mk(&c.edges_a), mk(&c.edges_b)) {
        (Ok(Ok(a)), Ok(Ok(b))) => (a, b),
        _ => {
            o.discarded = Some("edge list rejected by from_ranges (see C12)");
            return Ok(());
        }
    };
    let same_edges = c.edges_a.iter().zip(&c.edges_b).take(H::LEN + 1).all(|(a, b)| a == b);
    let edges: [Vec<f64>; 4] = [ha.ranges(), ha.ranges(), ha.ranges(), hb.ranges()];
    let class_of = |i: usize| if i == 3 && !same_edges { 1 } else { 0 };
    let mut pool: Vec<H> = vec![ha.clone(), ha.clone(), ha, hb];
    let mut model: Vec<Vec<u64>> = vec![vec![0; H::LEN]; 4];
    let mut was_reset = [false; 4];
    let (mut nt, mut saw_mismatch, mut reuse) = (false, false, false);
    let verify = |pool: &Vec<H>, model: &Vec<Vec<u64>>, step: usize, op: &Op, o: &mut Obs| -> TestResult {
        for i in 0..4 {
            o.evals += 1;
            if pool[i].bins() != model[i] {
                return fail("algebra:counts", format!("after step {} ({:?}) histogram {} has counts {:?}, the bin-wise model says {:?}", step, op, i, pool[i].bins(), model[i]));
            }
            if bits(&pool[i].ranges()) != bits(&edges[i]) {
                return fail("algebra:edges", format!("after step {} ({:?}) histogram {} has edges {:?}, expected {:?}", step, op, i, pool[i].ranges(), edges[i]));
            }
        }
        Ok(())
    };
    for (step, op) in c.ops.iter().enumerate() {
        match op {
            Op::Add { h, x } => {
                let h = *h % 4;
                let x = fstr::dec(x).unwrap_or(0.0);
                let want = model_find(&edges[h], x);
                let r = no_panic(|| pool[h].add(x)).map_err(|m| Fail { sig: "histogram:panic".into(), msg: format!("add({:?}) panicked: {}", x, m) })?;
                if r.is_ok() != want.is_some() {
                    return fail("algebra:add", format!("add({:?}) on edges {:?} returned {:?}", x, edges[h], r));
                }
                if let Some(i) = want {
                    model[h][i] += 1;
                    if was_reset[h] {
                        reuse = true;
                    }
                }
            }
            Op::Merge { dst, src } | Op::AddAssign { dst, src } => {
                let (d, s) = (*dst % 4, *src % 4);
                let sum: Vec<u64> = model[d].iter().zip(&model[s]).map(|(a, b)| a + b).collect();
                if sum.iter().any(|&v| v > 2 * LIMIT) {
                    continue;
                }
                let other = pool[s].clone();
                let before_d = (pool[d].bins(), bits(&pool[d].ranges()));
                let before_s = (other.bins(), bits(&other.ranges()));
                let mut via_merge = pool[d].clone();
                let mut via_add = pool[d].clone();
                let rm = no_panic(|| via_merge.merge(&other));
                let ra = no_panic(|| via_add.add_assign(&other));
                o.evals += 2;
                if class_of(d) != class_of(s) {
                    saw_mismatch = true;
                    if rm.is_ok() || ra.is_ok() {
                        return fail("algebra:mismatch-accepted", format!("step {}: edges {:?} vs {:?} differ but merge {} and += {}", step, edges[d], edges[s], if rm.is_ok() { "did not panic" } else { "panicked" }, if ra.is_ok() { "did not panic" } else { "panicked" }));
                    }
                    for (nm, hh) in [("merge", &via_merge), ("+=", &via_add)] {
                        if (hh.bins(), bits(&hh.ranges())) != before_d {
                            return fail("algebra:mismatch-modified", format!("step {}: the failed {} modified its left operand: {:?} -> {:?}", step, nm, before_d.0, hh.bins()));
                        }
                    }
                    if (other.bins(), bits(&other.ranges())) != before_s {
                        return fail("algebra:mismatch-modified", format!("step {}: a failed merge modified its argument", step));
                    }
                    // pool unchanged
                } else {
                    if let Err(m) = &rm {
                        return fail("algebra:panic", format!("step {}: merge of histograms with identical edges panicked: {}", step, m));
                    }
                    if let Err(m) = &ra {
                        return fail("algebra:panic", format!("step {}: += of histograms with identical edges panicked: {}", step, m));
                    }
                    if via_merge.bins() != sum || via_add.bins() != sum {
                        return fail("algebra:sum", format!("step {}: {:?} + {:?}: merge gives {:?}, += gives {:?}, the bin-wise sum is {:?}", step, model[d], model[s], via_merge.bins(), via_add.bins(), sum));
                    }
                    if (other.bins(), bits(&other.ranges())) != before_s {
                        return fail("algebra:argument-modified", format!("step {}: merge/+= modified its argument", step));
                    }
                    if model[d].iter().any(|&v| v > 0) && model[s].iter().any(|&v| v > 0) {
                        nt = true;
                    }
                    model[d] = sum;
                    pool[d] = if matches!(op, Op::Merge { .. }) { via_merge } else { via_add };
                }
            }
            Op::Mul { h, k } => {
                let h = *h % 4;
                if model[h].iter().any(|&v| v.saturating_mul(*k) > LIMIT) {
                    continue;
                }
                no_panic(|| pool[h].mul_assign(*k)).map_err(|m| Fail { sig: "algebra:panic".into(), msg: format!("*= {} panicked: {}", k, m) })?;
                for v in model[h].iter_mut() {
                    *v *= *k;
                }
            }
            Op::Reset { h } => {
                let h = *h % 4;
                pool[h].reset();
                if model[h].iter().any(|&v| v > 0) {
                    was_reset[h] = true;
                }
                for v in model[h].iter_mut() {
                    *v = 0;
                }
            }
            Op::Clone { dst, src } => {
                let (d, s) = (*dst % 4, *src % 4);
                if class_of(d) != class_of(s) || d == s || (d == 3) != (s == 3) {
                    continue;
                }
                pool[d] = pool[s].clone();
                model[d] = model[s].clone();
            }
        }
        verify(&pool, &model, step, op, o)?;
        // the derived views of the histogram(s) this step touched (a stale cache would show here even if a
        // later operation repairs it)
        let touched: Vec<usize> = match op {
            Op::Add { h, .. } | Op::Mul { h, .. } | Op::Reset { h } => vec![*h % 4],
            Op::Merge { dst, .. } | Op::AddAssign { dst, .. } => vec![*dst % 4],
            Op::Clone { dst, .. } => vec![*dst % 4],
        };
        if H::LEN <= 10 || step % 4 == 3 {
            for i in touched {
                check_views(&pool[i], &model[i], &edges[i], &format!("histogram {} after step {} ({:?})", i, step, op), o)?;
            }
        }
    }
    // commutativity / associativity on the three histograms over edges_a
    let (a, b, cc) = (&pool[0], &pool[1], &pool[2]);
    if model[..3].iter().all(|m| m.iter().all(|&v| v < LIMIT)) {
        let add = |x: &H, y: &H, use_merge: bool| -> Result<H, String> {
            let mut r = x.clone();
            no_panic(|| if use_merge { r.merge(y) } else { r.add_assign(y) })?;
            Ok(r)
        };
        for use_merge in [true, false] {
            let nm = if use_merge { "merge" } else { "+=" };
            let ab = add(a, b, use_merge).map_err(|m| Fail { sig: "algebra:panic".into(), msg: m })?;
            let ba = add(b, a, use_merge).map_err(|m| Fail { sig: "algebra:panic".into(), msg: m })?;
            o.evals += 2;
            if ab.bins() != ba.bins() {
                return fail("algebra:commutative", format!("{}: a+b = {:?} but b+a = {:?}", nm, ab.bins(), ba.bins()));
            }
            let ab_c = add(&ab, cc, use_merge).map_err(|m| Fail { sig: "algebra:panic".into(), msg: m })?;
            let bc = add(b, cc, use_merge).map_err(|m| Fail { sig: "algebra:panic".into(), msg: m })?;
            let a_bc = add(a, &bc, use_merge).map_err(|m| Fail { sig: "algebra:panic".into(), msg: m })?;
            if ab_c.bins() != a_bc.bins() {
                return fail("algebra:associative", format!("{}: (a+b)+c = {:?} but a+(b+c) = {:?}", nm, ab_c.bins(), a_bc.bins()));
            }
            let want: Vec<u64> = (0..H::LEN).map(|i| model[0][i] + model[1][i] + model[2][i]).collect();
            if ab_c.bins() != want {
                return fail("algebra:sum", format!("{}: a+b+c = {:?}, bin-wise sum {:?}", nm, ab_c.bins(), want));
            }
        }
    }
    for i in 0..4 {
        check_views(&pool[i], &model[i], &edges[i], &format!("histogram {}", i), o)?;
    }
    let special = edges[0].windows(2).any(|w| w[0] == w[1]) || edges[0].iter().any(|e| e.is_infinite());
    if special {
        o.class("infinite or zero-width bin with views");
    }
    if saw_mismatch {
        o.class("mismatching edges: both merge and += must panic");
    }
    if reuse {
        o.class("reset then reuse");
    }
    if model.iter().any(|m| m.iter().any(|&v| v >= 1 << 53) && m.iter().any(|&v| v % 2 == 1)) {
        o.class("a count >= 2^53 next to odd counts");
    }
    if same_edges && bits(&c.edges_a) != bits(&c.edges_b) {
        o.class("edges numerically equal but not bit-identical (-0.0 vs 0.0)");
    }
    o.classf(format!("{} LEN={}", H::IMPL, H::LEN));
    o.nontrivial = nt;
    Ok(())
}

pub struct Algebra;
impl Check for Algebra {
    type Case = History;
    fn name(&self) -> &'static str {
        "algebra_and_views"
    }
    fn fp(&self, c: &History, h: &mut Fp) {
        h.s(&c.imp).u(c.len as u64).fs(&c.edges_a).fs(&c.edges_b).s(&format!("{:?}", c.ops));
    }
    fn test(&self, c: &History, o: &mut Obs) -> TestResult {
        match hist_dispatch!(c.imp.as_str(), c.len, run_history, c, o) {
            Some(r) => r,
            None => {
                o.discarded = Some("implementation/LEN not available in this build");
                Ok(())
            }
        }
    }
    fn simplify(&self, c: &History) -> Vec<History> {
        let mut out = Vec::new();
        for i in 0..c.ops.len() {
            let mut s = c.clone();
            s.ops.remove(i);
            out.push(s);
        }
        out
    }
}

pub fn op_strategy(edges: Vec<f64>) -> impl Strategy<Value = Op> {
    let e2 = edges.clone();
    prop_oneof![
        8 => (0usize..4, any::<proptest::sample::Index>(), any::<u8>(), 0.0..1.0f64).prop_map(move |(h, ix, kind, u)| {
            let x = super::c06::samples_around(&e2, &[(ix, if kind % 8 == 3 { 4 } else { kind }, u)])[0];
            Op::Add { h, x: fstr::enc(x) }
        }),
        3 => (0usize..4, 0usize..4).prop_map(|(dst, src)| Op::Merge { dst, src }),
        3 => (0usize..4, 0usize..4).prop_map(|(dst, src)| Op::AddAssign { dst, src }),
        1 => (0usize..4, prop_oneof![3 => 0u64..6, 1 => proptest::sample::select(vec![1u64 << 20, 1 << 32, 1 << 53, (1 << 53) + 1, 1 << 55])]).prop_map(|(h, k)| Op::Mul { h, k }),
        1 => (0usize..4).prop_map(|h| Op::Reset { h }),
        1 => (0usize..3, 0usize..3).prop_map(|(dst, src)| Op::Clone { dst, src }),
    ]
}

pub fn history_strategy(imp: String, len: usize, max_ops: usize) -> impl Strategy<Value = History> {
    (super::c06::edges_strategy(len), 0u8..5, any::<proptest::sample::Index>(), 0.0..1.0f64).prop_flat_map(move |(ea, bmode, pos, u)| {
        // edges_b: identical, numerically equal with -0.0/0.0 swapped, or different in one edge
        let mut eb = ea.clone();
        match bmode {
            0 | 1 => {}
            2 => {
                for v in eb.iter_mut() {
                    if *v == 0.0 {
                        *v = -*v;
                    }
                }
            }
            _ => {
                let p = pos.index(eb.len());
                let lo = if p > 0 { eb[p - 1] } else { f64::NEG_INFINITY };
                let hi = if p + 1 < eb.len() { eb[p + 1] } else { f64::INFINITY };
                let cand = if eb[p].is_finite() { crate::hist::next_up(eb[p]) } else if eb[p] > 0.0 { f64::MAX } else { f64::MIN };
                let cand2 = if lo.is_finite() && hi.is_finite() { lo + (hi - lo) * u } else { cand };
                let pick = if bmode == 3 { cand } else { cand2 };
                if pick >= lo && pick <= hi {
                    eb[p] = pick;
                }
            }
        }
        let imp = imp.clone();
        let ea2 = ea.clone();
        // scenario "big": one bin of histogram 0 is scaled beyond 2^53 (f64 integer
        // precision), histogram 1 collects many single samples, then 1 is merged into 0
        let adds_to_1 = vec((any::<proptest::sample::Index>(), 0.0..1.0f64), 10..60).prop_map(move |v| {
            v.into_iter()
                .map(|(ix, u)| {
                    let x = super::c06::samples_around(&ea2, &[(ix, if u < 0.5 { 6 } else { 0 }, u)])[0];
                    Op::Add { h: 1, x: fstr::enc(x) }
                })
                .collect::<Vec<Op>>()
        });
        let ea3 = ea.clone();
        (0u8..5, vec(op_strategy(ea.clone()), 0..max_ops), adds_to_1, any::<proptest::sample::Index>(), proptest::sample::select(vec![1u64 << 53, 1 << 54, (1 << 53) + 2])).prop_map(move |(scenario, mut ops, adds, ix, k)| {
            if scenario == 0 {
                let x = super::c06::samples_around(&ea3, &[(ix, 6, 0.5)])[0];
                let mut pre = vec![Op::Reset { h: 0 }, Op::Add { h: 0, x: fstr::enc(x) }, Op::Mul { h: 0, k }];
                pre.extend(adds);
                pre.push(Op::Merge { dst: 0, src: 1 });
                ops.truncate(4);
                pre.extend(ops);
                ops = pre;
            }
            History { imp: imp.clone(), len, edges_a: ea.clone(), edges_b: eb.clone(), ops }
        })
    })
}

pub fn run(cx: &Ctx) {
    cx.set_rule("cases = histories over a pool of four histograms (three on one edge vector, one on a second vector that is identical, numerically equal but with -0.0/0.0 swapped, or different in one edge): add, merge, +=, *= k (k <= 5 or a power of two up to 2^55, so that counts beyond 2^53 occur), reset, clone, executed on the real histograms and on a model (edge vector + Vec<u64>); after every step all counts and edges are compared with the model; every merge/+= is executed both ways on clones (both must give the bin-wise sum, or — for numerically different edges — both must panic leaving both operands bit-identical); after every step the derived views of the touched histogram are compared with their definitions; at the end a+b = b+a, (a+b)+c = a+(b+c) for merge and for +=, and iteration, widths, centers, normalized_bins (NaN-aware, IEEE semantics for infinite/zero-width bins), variance(i), variances() are compared with their definitions. LEN in {1,2,3,4,10,100}, every implementation in the build. Non-trivial = history contains a merge or += between two non-empty histograms; distinct = hash of (implementation, LEN, edges, history)");
    cx.extra("implementations", serde_json::json!(IMPLS));
    cx.assume("counts are kept below 2^57 by skipping operations that would exceed it (u64 overflow is outside the property)");
    cx.label("generated");
    let w = cx.workers.min(8);
    for imp in IMPLS {
        for &len in &LENS {
            let imp = imp.to_string();
            let max_ops = cx.by(40, 120);
            cx.run_pt(&Algebra, cx.by(1200, 40000), w, move || history_strategy(imp.clone(), len, max_ops), "histories of 0..40 (thorough 120) operations over 4 histograms");
        }
    }
}

pub fn replay(check: &str, case: &serde_json::Value) -> Option<Result<(), String>> {
    match check {
        "algebra_and_views" => Some(replay_case(&Algebra, case)),
        _ => None,
    }
}
