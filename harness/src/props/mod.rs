pub mod common;
pub mod c01;

use crate::engine::Ctx;
use serde_json::Value;

pub fn run(id: &str, cx: &Ctx) -> bool {
    match id {
        "C01" => c01::run(cx),
        _ => return false,
    }
    true
}

pub fn replay(id: &str, check: &str, case: &Value) -> Option<Result<(), String>> {
    match id {
        "C01" => c01::replay(check, case),
        _ => None,
    }
}
