pub mod common;
pub mod c01;
pub mod c02;
pub mod c03;
pub mod c04;
pub mod c05;
pub mod c06;
pub mod c07;
pub mod c08;
pub mod c09;
pub mod c10;
pub mod c11;
pub mod c12;
pub mod c13;
pub mod c14;
pub mod c15;
pub mod c16;
pub mod c17;
pub mod c18;
pub mod c19;
pub mod c20;

use crate::engine::Ctx;
use serde_json::Value;

macro_rules! table {
    ($($id:expr => $m:ident),*) => {
        pub fn run(id: &str, cx: &Ctx) -> bool {
            match id { $($id => $m::run(cx),)* _ => return false }
            true
        }
        pub fn replay(id: &str, check: &str, case: &Value) -> Option<Result<(), String>> {
            match id { $($id => $m::replay(check, case),)* _ => None }
        }
        pub const IDS: &[&str] = &[$($id),*];
    };
}
table!("C01" => c01, "C02" => c02, "C03" => c03, "C04" => c04, "C05" => c05, "C06" => c06, "C07" => c07, "C08" => c08, "C09" => c09, "C10" => c10, "C11" => c11, "C12" => c12, "C13" => c13, "C14" => c14, "C15" => c15, "C16" => c16, "C17" => c17, "C18" => c18, "C19" => c19, "C20" => c20);
