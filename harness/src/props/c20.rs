//! C20 — every ingestion path builds the same estimator; concatenate! adds nothing.
use super::c11::{first_value, second_value};
use crate::engine::*;
use crate::est::*;
use crate::est_dispatch;
use crate::types::snap_diff;
use average::{concatenate, Estimate, Kurtosis, Max, Mean, Min, Quantile, Variance};
use proptest::collection::vec;
use proptest::prelude::*;
use serde::{Deserialize, Serialize};

/// The sequence is cut into segments; segment k is ingested by path[k]:
/// 0 collect by value (first segment only, else add loop), 1 collect by
/// reference (first segment only, else add loop), 2 extend by value, 3 extend by
/// reference, 4 add loop.
#[derive(Clone, Debug, Serialize, Deserialize)]
pub struct Ingest {
    pub ty: String,
    #[serde(with = "fpairs")]
    pub vals: Vec<(f64, f64)>,
    pub cuts: Vec<usize>,
    pub paths: Vec<u8>,
}

fn run20<T: Est>(c: &Ingest, o: &mut Obs) -> TestResult {
    let n = c.vals.len();
    let mut reference = T::new_();
    for &(x, y) in &c.vals {
        reference.add2(x, y);
    }
    let mut b = vec![0usize];
    b.extend(c.cuts.iter().map(|&k| k.min(n)));
    b.push(n);
    b.sort();
    let mut t: Option<T> = None;
    let mut used = std::collections::BTreeSet::new();
    let mut extend_onto_nonempty = false;
    for (k, w) in b.windows(2).enumerate() {
        let seg = &c.vals[w[0]..w[1]];
        // 0..4 as documented; 5/6 collect by value/reference, 7/8 extend by value/reference through an
        // iterator whose size_hint lower bound is 0 (a filter that keeps everything)
        let mut path = c.paths.get(k).copied().unwrap_or(4) % 9;
        let is_collect = |p: u8| p < 2 || p == 5 || p == 6;
        let is_extend = |p: u8| p == 2 || p == 3 || p == 7 || p == 8;
        if !T::HAS_COLLECT && is_collect(path) {
            path = 4;
        }
        if !T::HAS_EXTEND && is_extend(path) {
            path = 4;
        }
        if k > 0 && is_collect(path) {
            path = 4;
        }
        match (path, t.as_mut()) {
            (0, None) => t = Some(T::collect_val(seg)),
            (1, None) => t = Some(T::collect_ref(seg)),
            (5, None) => t = Some(T::collect_val_u(seg)),
            (6, None) => t = Some(T::collect_ref_u(seg)),
            (p, cur) => {
                if cur.is_none() {
                    t = Some(if k % 2 == 0 { T::new_() } else { T::default_() });
                }
                let e = t.as_mut().unwrap();
                if is_extend(p) && w[0] > 0 && !seg.is_empty() {
                    extend_onto_nonempty = true;
                }
                match p {
                    2 => e.extend_val_(seg),
                    3 => e.extend_ref_(seg),
                    7 => e.extend_val_u(seg),
                    8 => e.extend_ref_u(seg),
                    _ => {
                        for &(x, y) in seg {
                            e.add2(x, y);
                        }
                    }
                }
            }
        }
        used.insert(path);
    }
    let t = t.unwrap_or_else(T::new_);
    o.evals += 1;
    if let Some(d) = snap_diff(&reference.snap(), &t.snap()) {
        // Known finding K3: Min/Max are built on f64::min/max, which leave the sign of a zero
        // result unspecified; the optimiser compiles the add loop, collect and extend differently,
        // so a stream containing both 0.0 and -0.0 can end in 0.0 on one path and -0.0 on another.
        let zero_sign_only = (T::NAME == "Min" || T::NAME == "Max")
            && reference.snap().iter().zip(t.snap().iter()).all(|(a, b)| a.1.to_bits() == b.1.to_bits() || (a.1 == 0.0 && b.1 == 0.0));
        if zero_sign_only {
            return fail("ingest:differs:minmax-signed-zero", format!("{}: ingesting {} observations through paths {:?} (cuts {:?}) differs from the add loop only in the sign of a zero: {}", T::NAME, n, c.paths, c.cuts, d));
        }
        return fail("ingest:differs", format!("{}: ingesting {} observations through paths {:?} (cuts {:?}) differs from the add loop: {}", T::NAME, n, c.paths, c.cuts, d));
    }
    if let Some((est, head)) = t.estimate_pair_() {
        o.evals += 1;
        if est.to_bits() != head.to_bits() && !(est.is_nan() && head.is_nan()) {
            return fail("ingest:estimate", format!("{}: Estimate::estimate() = {:?} but the headline accessor reports {:?}", T::NAME, est, head));
        }
    }
    o.nontrivial = used.len() >= 2 && extend_onto_nonempty;
    if extend_onto_nonempty {
        o.class("extend onto a non-empty estimator");
    }
    o.classf(T::NAME.to_string());
    Ok(())
}

pub struct Paths;
impl Check for Paths {
    type Case = Ingest;
    fn name(&self) -> &'static str {
        "ingestion_paths"
    }
    fn fp(&self, c: &Ingest, h: &mut Fp) {
        h.s(&c.ty).us(&c.cuts);
        for p in &c.vals {
            h.f(p.0).f(p.1);
        }
        for p in &c.paths {
            h.u(*p as u64);
        }
    }
    fn test(&self, c: &Ingest, o: &mut Obs) -> TestResult {
        match est_dispatch!(c.ty.as_str(), run20, c, o) {
            Some(r) => r,
            None => {
                o.discarded = Some("unknown type");
                Ok(())
            }
        }
    }
    fn simplify(&self, c: &Ingest) -> Vec<Ingest> {
        let mut out = Vec::new();
        for i in 0..c.vals.len().min(30) {
            let mut s = c.clone();
            s.vals.remove(i);
            s.cuts = c.cuts.iter().map(|&k| if k > i { k - 1 } else { k }).collect();
            out.push(s);
        }
        out
    }
}

// ---- concatenate! -------------------------------------------------------------
concatenate!(MinMax, [Min, min], [Max, max]);
concatenate!(Multi, [Variance, var, mean, sample_variance, population_variance, error], [Quantile, median, quantile], [Kurtosis, kurt, kurtosis, skewness], [Max, maximum, max]);
concatenate!(pub PubMean, [Mean, mean]);
pub mod inner {
    use average::{concatenate, Estimate, Min, Variance};
    // `pub` variant used from another module
    concatenate!(pub VarMin, [Variance, v, mean, error], [Min, min, min]);
}

#[derive(Clone, Debug, Serialize, Deserialize)]
pub struct Conc {
    #[serde(with = "fvec")]
    pub xs: Vec<f64>,
    /// 0 new()+add, 1 default()+add, 2 collect by value, 3 collect by reference
    pub ctor: u8,
}

pub struct Concat;
impl Check for Concat {
    type Case = Conc;
    fn name(&self) -> &'static str {
        "concatenate"
    }
    fn fp(&self, c: &Conc, h: &mut Fp) {
        h.fs(&c.xs).u(c.ctor as u64);
    }
    fn test(&self, c: &Conc, o: &mut Obs) -> TestResult {
        let xs = &c.xs;
        macro_rules! build {
            ($T:ident) => {
                match c.ctor % 4 {
                    0 => {
                        let mut t = $T::new();
                        for &x in xs {
                            t.add(x);
                        }
                        t
                    }
                    1 => {
                        let mut t = $T::default();
                        for &x in xs {
                            t.add(x);
                        }
                        t
                    }
                    2 => xs.iter().copied().collect::<$T>(),
                    _ => xs.iter().collect::<$T>(),
                }
            };
        }
        let mm = build!(MinMax);
        let mu = build!(Multi);
        let pm = build!(PubMean);
        use inner::VarMin;
        let vm = build!(VarMin);
        // stand-alone estimators fed the same sequence
        let mut v = Variance::new();
        let mut q = Quantile::default();
        let mut k = Kurtosis::new();
        let mut mx = Max::new();
        let mut mn = Min::new();
        let mut me = Mean::new();
        for &x in xs {
            v.add(x);
            q.add(x);
            k.add(x);
            mx.add(x);
            mn.add(x);
            me.add(x);
        }
        let pairs: Vec<(&str, f64, f64)> = vec![
            ("MinMax::min", mm.min(), mn.min()),
            ("MinMax::max", mm.max(), mx.max()),
            ("Multi::mean", mu.mean(), v.mean()),
            ("Multi::sample_variance", mu.sample_variance(), v.sample_variance()),
            ("Multi::population_variance", mu.population_variance(), v.population_variance()),
            ("Multi::error", mu.error(), v.error()),
            ("Multi::quantile", mu.quantile(), q.quantile()),
            ("Multi::kurtosis", mu.kurtosis(), k.kurtosis()),
            ("Multi::skewness", mu.skewness(), k.skewness()),
            ("Multi::max", mu.max(), mx.max()),
            ("PubMean::mean", pm.mean(), me.mean()),
            ("VarMin::mean", vm.mean(), v.mean()),
            ("VarMin::error", vm.error(), v.error()),
            ("VarMin::min", vm.min(), mn.min()),
        ];
        for (nm, got, want) in pairs {
            o.evals += 1;
            if got.to_bits() != want.to_bits() && !(got.is_nan() && want.is_nan()) {
                if (nm.ends_with("::min") || nm.ends_with("::max")) && got == 0.0 && want == 0.0 {
                    // known finding K3: the sign of a zero result of f64::min/max depends on how the loop was compiled
                    return fail("ingest:differs:minmax-signed-zero", format!("{} = {:?} but the stand-alone estimator reports {:?}: they differ only in the sign of zero", nm, got, want));
                }
                return fail("concatenate:differs", format!("{} = {:?} but the stand-alone estimator fed the same {} observations reports {:?} (constructor {})", nm, got, xs.len(), want, c.ctor % 4));
            }
        }
        o.nontrivial = xs.len() >= 2;
        o.classf(format!("ctor={}", ["new", "default", "collect-val", "collect-ref"][(c.ctor % 4) as usize]));
        if xs.len() >= 5 {
            o.class("Quantile past initialisation");
        }
        Ok(())
    }
}

pub fn run(cx: &Ctx) {
    cx.set_rule("cases = (type, sequence over the C01 domain, cut points, one ingestion path per segment out of {collect by value, collect by reference (first segment), extend by value, extend by reference, add loop, and the same collect/extend calls through an iterator whose size_hint lower bound is 0}) for Mean, Variance, Skewness, Kurtosis, Moments4, an order-6 define_moments! type, Min, Max (no Extend), WeightedMean, WeightedMeanWithError, Covariance ((f64,f64) and &(f64,f64) items): every public accessor bit-equal to the plain add loop; Estimate::estimate() bit-equal to the headline accessor; and concatenate!-generated structs (2-field MinMax; 4-field [Variance: mean, sample_variance, population_variance, error], [Quantile: quantile], [Kurtosis: kurtosis, skewness], [Max: max]; `pub` variants, one defined in another module) built by new()+add, default()+add, collect by value and by reference report bit-for-bit what the stand-alone estimators report. Non-trivial = at least two different paths with an extend onto a non-empty estimator (concatenate: n >= 2); distinct = hash of the inputs");
    cx.label("fixed");
    {
        // reproducer of known finding K3 (see KNOWN_FINDINGS.txt); whether it manifests depends on the build
        let mut xs: Vec<f64> = vec![7.0; 42];
        xs[10] = 10.0;
        for v in xs.iter_mut().skip(11).take(7) {
            *v = 0.0;
        }
        xs[21] = -0.0;
        xs[41] = 1.0;
        let vals: Vec<(f64, f64)> = xs.iter().map(|&x| (x, 0.0)).collect();
        let neg: Vec<(f64, f64)> = xs.iter().map(|&x| (-x, 0.0)).collect();
        cx.run_list(&Paths, vec![
            Ingest { ty: "Min".into(), vals: vals.clone(), cuts: vec![3, 3], paths: vec![0, 0, 0, 0, 0, 2] },
            Ingest { ty: "Max".into(), vals: neg, cuts: vec![3, 3], paths: vec![0, 0, 0, 0, 0, 2] },
            Ingest { ty: "Mean".into(), vals, cuts: vec![3, 3], paths: vec![0, 0, 0, 0, 0, 2] },
        ], "K3 reproducer (Min over a stream with 0.0 and -0.0, collect + extend vs add loop)");
    }
    cx.label("generated");
    for ty in INGEST_TYPES {
        let kind = kind_of(ty);
        let ty = ty.to_string();
        let strat = move || {
            let ty = ty.clone();
            (prop_oneof![3 => vec((first_value(kind), second_value(kind)), 0..60), 1 => vec((first_value(kind), second_value(kind)), 60..700)], vec(any::<proptest::sample::Index>(), 0..5), vec(0u8..9, 6)).prop_map(move |(vals, ix, paths)| {
                let n = vals.len();
                let mut cuts: Vec<usize> = ix.iter().map(|i| i.index(n + 1)).collect();
                cuts.sort();
                Ingest { ty: ty.clone(), vals, cuts, paths }
            })
        };
        cx.run_pt(&Paths, cx.by(1200, 60000), cx.workers.min(8), strat, "sequences of 0..700 observations (3/4 shorter than 60), up to 6 segments, every combination of paths");
    }
    cx.label("long");
    {
        // collect()/extend() of more than 2^16 observations in one call (block-wise implementations differ from the add loop only here)
        let mut r = Sm(cx.seed ^ 0xC20);
        let mut cases = Vec::new();
        for ty in ["Mean", "Variance", "Kurtosis", "Moments4", "Min", "WeightedMeanWithError", "Covariance"] {
            for (n, cuts, paths) in [(70_000usize, vec![], vec![0u8]), (140_000, vec![], vec![1]), (70_003, vec![3], vec![1, 2]), (66_000, vec![66_000 / 2], vec![5, 8])] {
                let vals: Vec<(f64, f64)> = (0..n).map(|_| (r.normal() * 3.0 + 0.1, (r.f() * 4.0).floor())).collect();
                cases.push(Ingest { ty: ty.to_string(), vals, cuts, paths });
            }
        }
        cx.run_list(&Paths, cases, "7 types x 4 long sequences (66000..140000 observations) collected / extended in one or two calls");
    }
    cx.label("generated");
    let strat = || (prop_oneof![3 => vec(super::c11::c01_value(), 0..80), 1 => vec(super::c11::c01_value(), 80..600)], 0u8..4).prop_map(|(xs, ctor)| Conc { xs, ctor });
    cx.run_pt(&Concat, cx.by(3000, 300000), cx.workers, strat, "sequences of 0..80 observations x 4 constructors x 4 concatenate! structs");
}

pub fn replay(check: &str, case: &serde_json::Value) -> Option<Result<(), String>> {
    match check {
        "ingestion_paths" => Some(replay_case(&Paths, case)),
        "concatenate" => Some(replay_case(&Concat, case)),
        _ => None,
    }
}
