//! C06 — a histogram counts each sample in the unique half-open bin that contains it.
use crate::engine::*;
use crate::hist::*;
use crate::hist_dispatch;
use proptest::collection::vec;
use proptest::prelude::*;
use serde::{Deserialize, Serialize};

#[derive(Clone, Debug, Serialize, Deserialize)]
pub struct Lookup {
    pub imp: String,
    pub len: usize,
    /// Some((start, end)): built by with_const_width; None: from_ranges(edges)
    pub const_width: Option<(String, String)>,
    #[serde(with = "fvec")]
    pub edges: Vec<f64>,
    /// the add history
    #[serde(with = "fvec")]
    pub samples: Vec<f64>,
    /// positions in the history before which reset() is called (the histogram stays the same
    /// successfully built histogram: same edges, counts zero)
    #[serde(default)]
    pub resets: Vec<usize>,
}

fn run_lookup<H: Hist>(c: &Lookup, o: &mut Obs) -> TestResult {
    let built = match &c.const_width {
        Some((s, e)) => {
            let (s, e) = (fstr::dec(s).unwrap(), fstr::dec(e).unwrap());
            if !(s.is_finite() && e.is_finite() && s < e && (e - s).is_finite()) {
                o.discarded = Some("with_const_width outside finite start < end");
                return Ok(());
            }
            no_panic(|| H::with_const_width(s, e)).map_err(|m| Fail { sig: "histogram:panic".into(), msg: format!("with_const_width({:?},{:?}) panicked: {}", s, e, m) })?
        }
        None => match no_panic(|| H::from_ranges(&c.edges)) {
            Ok(Ok(h)) => h,
            Ok(Err(_)) => {
                // construction is C12's subject; C06 quantifies over successfully built histograms
                o.discarded = Some("edge list rejected by from_ranges (see C12)");
                return Ok(());
            }
            Err(m) => return fail("histogram:panic", format!("from_ranges({:?}) panicked: {}", c.edges, m)),
        },
    };
    let mut h = built;
    let edges = h.ranges();
    if edges.len() != H::LEN + 1 {
        return fail("histogram:ranges-len", format!("ranges() has {} entries for LEN = {}", edges.len(), H::LEN));
    }
    let (rmin, rmax) = (h.range_min(), h.range_max());
    let mut model = vec![0u64; H::LEN];
    let mut ok_adds = 0u64;
    let mut nt = edges.windows(2).any(|w| w[0] == w[1]) || edges.iter().any(|e| e.is_infinite());
    if edges.windows(2).any(|w| w[0] == w[1]) {
        o.class("repeated edge (zero-width bin)");
    }
    if edges.iter().any(|e| e.is_infinite()) {
        o.class("infinite edge");
    }
    for (pos, &x) in c.samples.iter().enumerate() {
        if c.resets.contains(&pos) {
            no_panic(|| h.reset()).map_err(|m| Fail { sig: "histogram:panic".into(), msg: format!("reset() panicked: {}", m) })?;
            for v in model.iter_mut() {
                *v = 0;
            }
            ok_adds = 0;
            o.class("reset inside the history");
            if h.ranges().iter().zip(&edges).any(|(a, b)| a.to_bits() != b.to_bits()) || h.bins().iter().any(|&b| b != 0) {
                return fail("histogram:reset", format!("reset() must zero the counts and keep the edges {:?}; got edges {:?}, counts {:?}", edges, h.ranges(), h.bins()));
            }
        }
        let want = model_find(&edges, x);
        let in_range = rmin <= x && x < rmax;
        if x.is_nan() {
            o.class("NaN sample");
            nt = true;
        } else if edges.iter().any(|&e| e == x) {
            o.class("sample equals an edge");
            nt = true;
        } else if edges.iter().any(|&e| next_up(e) == x || next_down(e) == x) {
            o.class("sample one ulp from an edge");
            nt = true;
        }
        o.evals += 1;
        if want.is_some() != in_range {
            // would be a defect of the model, not of the code: range_min <= x < range_max <=> some bin contains x
            return fail("model:inconsistent", format!("edges {:?} x {:?}: linear scan {:?} vs range test {}", edges, x, want, in_range));
        }
        let f = match no_panic(|| h.find(x)) {
            Ok(r) => r.ok(),
            Err(m) => return fail("histogram:panic", format!("find({:?}) panicked on edges {:?}: {}", x, edges, m)),
        };
        if f != want {
            return fail("histogram:find", format!("edges {:?}: find({:?}) = {:?} but the half-open bin containing it is {:?}", edges, x, f, want));
        }
        let before = h.bins();
        let a = match no_panic(|| h.add(x)) {
            Ok(r) => r.is_ok(),
            Err(m) => return fail("histogram:panic", format!("add({:?}) panicked on edges {:?}: {}", x, edges, m)),
        };
        if a != want.is_some() {
            return fail("histogram:add-result", format!("edges {:?}: add({:?}) returned {} but {}", edges, x, if a { "Ok" } else { "Err" }, if want.is_some() { "the sample is in range" } else { "the sample is out of range" }));
        }
        if let Some(i) = want {
            model[i] += 1;
            ok_adds += 1;
        }
        let after = h.bins();
        if after != model {
            return fail("histogram:counts", format!("edges {:?}: after add({:?}) counts went {:?} -> {:?}, expected {:?}", edges, x, before, after, model));
        }
        if h.ranges().iter().zip(&edges).any(|(a, b)| a.to_bits() != b.to_bits()) {
            return fail("histogram:edges-changed", format!("add({:?}) modified the edges", x));
        }
    }
    o.evals += 2;
    let total: u64 = h.bins().iter().sum();
    if total != ok_adds {
        return fail("histogram:total", format!("sum of counts {} != number of successful adds {}", total, ok_adds));
    }
    for i in 0..H::LEN {
        if edges[i] == edges[i + 1] && h.bins()[i] != 0 {
            return fail("histogram:zero-width-bin", format!("zero-width bin {} of edges {:?} holds {}", i, edges, h.bins()[i]));
        }
    }
    o.nontrivial = nt && !c.samples.is_empty();
    o.classf(format!("{} LEN={}", H::IMPL, H::LEN));
    Ok(())
}

pub struct BinLookup;
impl Check for BinLookup {
    type Case = Lookup;
    fn name(&self) -> &'static str {
        "bin_lookup"
    }
    fn fp(&self, c: &Lookup, h: &mut Fp) {
        h.s(&c.imp).u(c.len as u64).fs(&c.edges).fs(&c.samples).us(&c.resets);
        if let Some((s, e)) = &c.const_width {
            h.s(s).s(e);
        }
    }
    fn test(&self, c: &Lookup, o: &mut Obs) -> TestResult {
        match hist_dispatch!(c.imp.as_str(), c.len, run_lookup, c, o) {
            Some(r) => r,
            None => {
                o.discarded = Some("implementation/LEN not available in this build");
                Ok(())
            }
        }
    }
    fn simplify(&self, c: &Lookup) -> Vec<Lookup> {
        let mut out = Vec::new();
        for i in 0..c.samples.len() {
            let mut s = c.clone();
            s.samples.remove(i);
            out.push(s);
        }
        out
    }
}

pub const LATTICE: [f64; 8] = [f64::NEG_INFINITY, -1.0, -0.0, 0.0, 0.5, 1.0, 2.0, f64::INFINITY];

pub fn sample_set(edges: &[f64]) -> Vec<f64> {
    let mut samples: Vec<f64> = vec![f64::NEG_INFINITY, f64::INFINITY, -0.0, 0.0, f64::NAN, f64::MAX, f64::MIN, f64::MIN_POSITIVE, -f64::MIN_POSITIVE];
    for &e in edges {
        samples.push(e);
        samples.push(next_up(e));
        samples.push(next_down(e));
    }
    for w in edges.windows(2) {
        if w[0].is_finite() && w[1].is_finite() {
            samples.push(0.5 * (w[0] + w[1]));
        }
    }
    samples
}

/// all non-decreasing edge vectors of length len+1 over the lattice
pub fn lattice_vectors(len: usize) -> Vec<Vec<f64>> {
    let k = LATTICE.len();
    let mut out = Vec::new();
    let mut idx = vec![0usize; len + 1];
    loop {
        if idx.windows(2).all(|w| LATTICE[w[0]] <= LATTICE[w[1]]) {
            out.push(idx.iter().map(|&i| LATTICE[i]).collect());
        }
        let mut j = 0;
        loop {
            if j > len {
                break;
            }
            idx[j] += 1;
            if idx[j] < k {
                break;
            }
            idx[j] = 0;
            j += 1;
        }
        if j > len {
            break;
        }
    }
    out
}

/// random valid edge vector with runs of repeated edges and optional infinite outer edges
pub fn edges_strategy(len: usize) -> impl Strategy<Value = Vec<f64>> {
    (vec((0.0..1.0f64, 0u8..6), len + 1), any::<bool>(), any::<bool>(), -6.0..6.0f64, -3.0..3.0f64, proptest::option::weighted(0.3, any::<proptest::sample::Index>())).prop_map(move |(steps, inf_lo, inf_hi, lscale, off, zero_at)| {
        let scale = 10f64.powf(lscale);
        let mut v = Vec::with_capacity(len + 1);
        let mut cur = off * scale;
        for (u, kind) in steps {
            // kind 0,1: repeat the previous edge (zero-width bin)
            if kind >= 2 {
                cur += u * scale;
            }
            v.push(cur);
        }
        if let Some(ix) = zero_at {
            // translate so that one edge is exactly 0.0 (subtraction of a constant is monotone)
            let z = v[ix.index(v.len())];
            for e in v.iter_mut() {
                *e -= z;
            }
        }
        if inf_lo {
            v[0] = f64::NEG_INFINITY;
        }
        if inf_hi {
            v[len] = f64::INFINITY;
        }
        v
    })
}

pub fn samples_around(edges: &[f64], picks: &[(proptest::sample::Index, u8, f64)]) -> Vec<f64> {
    let fin: Vec<f64> = edges.iter().copied().filter(|e| e.is_finite()).collect();
    let (lo, hi) = (fin.iter().cloned().fold(f64::INFINITY, f64::min), fin.iter().cloned().fold(f64::NEG_INFINITY, f64::max));
    picks
        .iter()
        .map(|(ix, kind, u)| {
            let e = edges[ix.index(edges.len())];
            match kind % 8 {
                0 => e,
                1 => next_up(e),
                2 => next_down(e),
                3 => f64::NAN,
                4 => if lo.is_finite() { lo + (hi - lo) * (u * 1.4 - 0.2) } else { *u },
                5 => [f64::INFINITY, f64::NEG_INFINITY, 0.0, -0.0][(u * 4.0) as usize % 4],
                6 => {
                    let e2 = edges[(ix.index(edges.len()) + 1) % edges.len()];
                    if e.is_finite() && e2.is_finite() { 0.5 * (e + e2) } else { e }
                }
                _ => if lo.is_finite() { lo + (hi - lo) * u } else { -*u },
            }
        })
        .collect()
}

pub fn run(cx: &Ctx) {
    cx.set_rule("cases = (implementation, LEN, edge vector or with_const_width(start,end), add history). Exhaustive: LEN 1..4, every non-decreasing edge vector over the lattice {-inf,-1,-0.0,0,0.5,1,2,+inf}, history (once plain, once with a reset() in the middle) = every edge, its two floating-point neighbours, bin midpoints, +-inf, +-0.0, NaN, +-f64::MAX, +-MIN_POSITIVE. Sampled: LEN 10 and 100 with runs of repeated edges and infinite outer edges, with_const_width histograms, samples drawn around edges. Oracle: linear scan for the unique i with lower_i <= x < upper_i; find/add Ok exactly then, only that count incremented, otherwise Err with counts unchanged and no panic (catch_unwind); sum of counts = successful adds; zero-width bins stay empty. Both histogram implementations when built with nightly. Non-trivial = the history contains a sample equal to / one ulp from an edge or NaN, or the edge vector has a repeated or infinite edge; distinct = hash of (implementation, LEN, edge bits, history bits)");
    cx.assume("which of several equal edges binary_search_by returns is unspecified by std; the verdict is for the toolchain in this image");
    cx.extra("implementations", serde_json::json!(IMPLS));
    let mut cases = Vec::new();
    for imp in IMPLS {
        for len in 1..=4usize {
            for e in lattice_vectors(len) {
                let samples = sample_set(&e);
                let half = samples.len() / 2;
                cases.push(Lookup { imp: imp.to_string(), len, const_width: None, edges: e.clone(), samples: samples.clone(), resets: vec![] });
                cases.push(Lookup { imp: imp.to_string(), len, const_width: None, edges: e, samples, resets: vec![half] });
            }
        }
    }
    cx.label("exhaustive");
    let total = cases.len() as u64;
    cx.run_enum(&BinLookup, total, |i| Some(cases[i as usize].clone()), "LEN 1..=4 x all non-decreasing edge vectors over an 8-value lattice x ~25 samples per vector, every implementation");
    cx.label("generated");
    let w = cx.workers;
    let n = cx.by(600, 60000);
    for imp in IMPLS {
        for &len in &LENS {
            let imp = imp.to_string();
            let strat = move || {
                let imp = imp.clone();
                (edges_strategy(len), vec((any::<proptest::sample::Index>(), any::<u8>(), 0.0..1.0f64), 1..60)).prop_map(move |(edges, picks)| {
                    let samples = samples_around(&edges, &picks);
                    let resets = if picks.len() % 3 == 0 { vec![picks.len() / 2] } else { vec![] };
                    Lookup { imp: imp.clone(), len, const_width: None, edges, samples, resets }
                })
            };
            cx.run_pt(&BinLookup, n, w.min(8), strat, "LEN in {1,2,3,4,10,100}: random valid edge vectors with repeated/infinite edges, histories of 1..60 samples around edges");
        }
    }
    cx.label("generated-const-width");
    for imp in IMPLS {
        for &len in &LENS {
            let imp = imp.to_string();
            let strat = move || {
                let imp = imp.clone();
                (-15.0..15.0f64, -1.0..1.0f64, -15.0..15.0f64, 0.001..1.0f64, 0u8..4, vec((any::<proptest::sample::Index>(), any::<u8>(), 0.0..1.0f64), 1..40)).prop_map(move |(la, na, lw, fw, mode, picks)| {
                    let a = 10f64.powf(la) * na;
                    let wd = 10f64.powf(lw) * fw;
                    let (s, e) = match mode {
                        0 => (a, a + wd),
                        1 => (-wd, wd * fw),
                        2 => (a, a + a.abs() * 1e-12 * (1.0 + fw)),
                        _ => (0.0, wd),
                    };
                    // edges are taken from the built histogram inside the test; provide an approximation for sampling
                    let approx: Vec<f64> = (0..=len).map(|i| s + (e - s) * i as f64 / len as f64).collect();
                    let samples = samples_around(&approx, &picks);
                    let resets = if picks.len() % 4 == 0 { vec![picks.len() / 3] } else { vec![] };
                    Lookup { imp: imp.clone(), len, const_width: Some((fstr::enc(s), fstr::enc(e))), edges: vec![], samples, resets }
                })
            };
            cx.run_pt(&BinLookup, n / 2, w.min(8), strat, "with_const_width(start, end) over 30 decades, histories around the nominal edges");
        }
    }
}

pub fn replay(check: &str, case: &serde_json::Value) -> Option<Result<(), String>> {
    match check {
        "bin_lookup" => Some(replay_case(&BinLookup, case)),
        _ => None,
    }
}
