//! C02 — merge is equivalent to having seen the concatenated data (moment family).
use super::common::*;
use crate::engine::*;
use crate::gen;
use crate::oracle::*;
use crate::types::*;
use average::{Kurtosis, Mean, Moments4, Skewness, Variance};
use proptest::prelude::*;
use serde::{Deserialize, Serialize};

/// A sequence, its cut points (sorted, duplicates = empty chunks) and the merge
/// order (index of the left element of the adjacent pair merged at each step).
#[derive(Clone, Debug, Serialize, Deserialize)]
pub struct Chunked {
    #[serde(with = "fvec")]
    pub xs: Vec<f64>,
    pub cuts: Vec<usize>,
    pub merges: Vec<usize>,
}

pub fn merged<T: Uni>(c: &Chunked) -> T {
    // chunk [a, b) is summarised through construction path (a + b) mod 4: collect by reference, add loop, extend, collect by value
    gen::run_merge_tree(c.xs.len(), &c.cuts, &c.merges, |a, b| build_uni::<T>(&c.xs[a..b], a + b), |l: &mut T, r: &T| l.merge(r))
}

pub fn classify_chunks(c: &Chunked, o: &mut Obs) -> usize {
    let n = c.xs.len();
    let mut b = vec![0usize];
    b.extend(c.cuts.iter().map(|&x| x.min(n)));
    b.push(n);
    let sizes: Vec<usize> = b.windows(2).map(|w| w[1].saturating_sub(w[0])).collect();
    let nonempty = sizes.iter().filter(|&&s| s > 0).count();
    let k = sizes.len();
    if k >= 3 && sizes[1..k - 1].iter().any(|&s| s == 0) {
        o.class("empty chunk in the middle");
    }
    if sizes[0] == 0 || sizes[k - 1] == 0 {
        o.class("empty chunk at an end");
    }
    if sizes.iter().any(|&s| s == 1) {
        o.class("singleton chunk");
    }
    let mx = sizes.iter().copied().max().unwrap_or(0);
    let mn = sizes.iter().copied().filter(|&s| s > 0).min().unwrap_or(0);
    if mn > 0 && mx >= 10 * mn && nonempty >= 2 {
        o.class("unbalanced >= 10:1");
    }
    if gen::tree_depth(k, &c.merges) >= 3 {
        o.class("tree depth >= 3");
    }
    o.classf(format!("chunks={}", match k { 1 => "1", 2 => "2", 3..=4 => "3-4", 5..=16 => "5-16", _ => ">16" }));
    nonempty
}

/// All moment-family types on one chunked sequence.
pub struct MergeAll;
impl Check for MergeAll {
    type Case = Chunked;
    fn name(&self) -> &'static str {
        "merge_tree"
    }
    fn fp(&self, c: &Chunked, h: &mut Fp) {
        h.fs(&c.xs).us(&c.cuts).us(&c.merges);
    }
    fn test(&self, c: &Chunked, o: &mut Obs) -> TestResult {
        let ex4 = match c01_gate(&c.xs, 4, 1, o) {
            Some(e) => e,
            None => return Ok(()),
        };
        let nonempty = classify_chunks(c, o);
        o.nontrivial = nonempty >= 2;
        o.class(n_bucket(c.xs.len()));
        merged::<Mean>(c).judge(&ex4, o)?;
        merged::<Variance>(c).judge(&ex4, o)?;
        merged::<Skewness>(c).judge(&ex4, o)?;
        merged::<Kurtosis>(c).judge(&ex4, o)?;
        merged::<Moments4>(c).judge(&ex4, o)?;
        if c.xs.len() <= 3000 && order_ok(&ex4, 5) {
            let ex = exact_moments(&c.xs, 10);
            o.class("higher orders judged");
            merged::<M5>(c).judge(&ex, o)?;
            if order_ok(&ex, 6) {
                merged::<M6>(c).judge(&ex, o)?;
            }
            if order_ok(&ex, 7) {
                merged::<M7>(c).judge(&ex, o)?;
            }
            if order_ok(&ex, 8) {
                merged::<M8>(c).judge(&ex, o)?;
            }
            if order_ok(&ex, 9) {
                merged::<M9>(c).judge(&ex, o)?;
            }
            if order_ok(&ex, 10) {
                merged::<M10>(c).judge(&ex, o)?;
            }
        }
        Ok(())
    }
    fn simplify(&self, c: &Chunked) -> Vec<Chunked> {
        let mut out = Vec::new();
        let n = c.xs.len();
        // fewer cuts
        for i in 0..c.cuts.len() {
            let mut cuts = c.cuts.clone();
            cuts.remove(i);
            out.push(Chunked { xs: c.xs.clone(), cuts, merges: c.merges.iter().take(c.merges.len().saturating_sub(1)).copied().collect() });
        }
        // drop one element (cuts after it shift down)
        if n <= 64 {
            for i in 0..n {
                let mut xs = c.xs.clone();
                xs.remove(i);
                let cuts = c.cuts.iter().map(|&k| if k > i { k - 1 } else { k }).collect();
                out.push(Chunked { xs, cuts, merges: c.merges.clone() });
            }
        }
        let r: Vec<f64> = c.xs.iter().map(|&x| round_sig(x, 3)).collect();
        if r.iter().zip(&c.xs).any(|(a, b)| a.to_bits() != b.to_bits()) {
            out.push(Chunked { xs: r, cuts: c.cuts.clone(), merges: c.merges.clone() });
        }
        out
    }
}

pub fn chunked_strategy(mid: usize, big: usize, max_lk: f64) -> impl Strategy<Value = Chunked> {
    (gen::dataset(1, mid, big, max_lk), gen::cut_mode(), gen::tree_mode()).prop_map(|(xs, cm, tm)| {
        let cuts = gen::make_cuts(&cm, xs.len());
        let merges = gen::make_merges(&tm, cuts.len() + 1);
        Chunked { xs, cuts, merges }
    })
}

/// every sequence of length 1..=4 over a 3-value alphabet x every composition
/// into k <= 4 contiguous possibly-empty chunks x every merge order
pub fn exhaustive_cases() -> Vec<Chunked> {
    let alphabets: [[f64; 3]; 3] = [[-1.0, 0.5, 2.0], [1e9, 1e9 + 1.0, 1e9 + 3.0], [-3e-20, 1e-20, 2.5e-20]];
    let mut out = Vec::new();
    for alpha in alphabets.iter() {
        for n in 1..=4usize {
            let mut idx = vec![0usize; n];
            loop {
                let xs: Vec<f64> = idx.iter().map(|&i| alpha[i]).collect();
                for k in 1..=4usize {
                    // cuts: k-1 non-decreasing positions in 0..=n
                    let mut cuts = vec![0usize; k - 1];
                    loop {
                        if cuts.windows(2).all(|w| w[0] <= w[1]) {
                            // all merge orders: sequences m_j in 0..(remaining-1)
                            let steps = k - 1;
                            let mut m = vec![0usize; steps];
                            loop {
                                out.push(Chunked { xs: xs.clone(), cuts: cuts.clone(), merges: m.clone() });
                                let mut j = 0;
                                loop {
                                    if j >= steps {
                                        break;
                                    }
                                    m[j] += 1;
                                    if m[j] < (k - 1 - j).max(1) {
                                        break;
                                    }
                                    m[j] = 0;
                                    j += 1;
                                }
                                if j >= steps {
                                    break;
                                }
                            }
                        }
                        let mut j = 0;
                        loop {
                            if j >= cuts.len() {
                                break;
                            }
                            cuts[j] += 1;
                            if cuts[j] <= n {
                                break;
                            }
                            cuts[j] = 0;
                            j += 1;
                        }
                        if j >= cuts.len() {
                            break;
                        }
                    }
                }
                let mut j = 0;
                loop {
                    if j >= n {
                        break;
                    }
                    idx[j] += 1;
                    if idx[j] < 3 {
                        break;
                    }
                    idx[j] = 0;
                    j += 1;
                }
                if j >= n {
                    break;
                }
            }
        }
    }
    out
}

pub fn run(cx: &Ctx) {
    cx.set_rule("cases = (data set over the C01 domain, cut points with duplicates = empty chunks, merge order) — chunks summarised by collect(), combined by left.merge(&right) in the generated order (left chain, right chain, balanced, random), for Mean, Variance, Skewness, Kurtosis, Moments4 and harness-instantiated define_moments! orders 5, 6, 7, 8, 9, 10; every accessor judged against the exact statistics of the WHOLE sequence with the single-pass envelope; len() exact. Exhaustive sub-space: all sequences of length 1..4 over three 3-value alphabets x all compositions into k <= 4 contiguous possibly-empty chunks x all merge orders. Non-trivial = at least two non-empty chunks; distinct = hash of (sequence bits, cuts, merge order)");
    cx.assume("exact oracle and envelopes as in C01; order-N types are judged only when the C04 arithmetic preconditions hold for the data (counted in classes as 'higher orders judged')");
    let all = exhaustive_cases();
    let total = all.len() as u64;
    cx.label("exhaustive");
    cx.run_enum(&MergeAll, total, |i| Some(all[i as usize].clone()), "sequences of length 1..=4 over 3 alphabets of 3 values x all chunkings into <= 4 chunks x all merge orders");
    let w = cx.workers;
    let cases = cx.by(2500, 30000);
    let big = cx.by(8000, 30000);
    cx.label("generated");
    cx.run_pt(&MergeAll, cases, w, move || chunked_strategy(3000, big, 11.9), "random data sets n <= 30000 (quick 6000) x random chunkings x 4 tree modes");
    cx.label("long-chunks");
    {
        // chunks longer than 2^16 elements (products of sample sizes beyond u32/u64 range show up only here)
        let pl = gen::Placement { shape: 7, order: 0, ls: 0.3, lk: Some(1.0), neg: false };
        let xs = gen::bulk_dataset(300_000, cx.seed ^ 0xC02, &pl);
        let cases = vec![
            Chunked { xs: xs.clone(), cuts: vec![150_000], merges: vec![0] },
            Chunked { xs: xs.clone(), cuts: vec![100_000, 200_000], merges: vec![1, 0] },
            Chunked { xs, cuts: vec![70_000, 140_000, 210_000], merges: vec![0, 1, 0] },
        ];
        cx.run_list(&MergeAll, cases, "one trending input of 3*10^5 elements cut into 2, 3 and 4 chunks of > 2^16 elements");
    }
    if cx.thorough() {
        let bulk = move || {
            (any::<u64>(), gen::placement(11.9), gen::cut_mode(), gen::tree_mode()).prop_map(move |(seed, pl, cm, tm)| {
                let xs = gen::bulk_dataset(100_000, seed, &pl);
                let cuts = gen::make_cuts(&cm, xs.len());
                let merges = gen::make_merges(&tm, cuts.len() + 1);
                Chunked { xs, cuts, merges }
            })
        };
        cx.label("bulk");
        cx.run_pt(&MergeAll, 4, w, bulk, "bulk n = 1e5");
    }
}

pub fn replay(check: &str, case: &serde_json::Value) -> Option<Result<(), String>> {
    match check {
        "merge_tree" => Some(replay_case(&MergeAll, case)),
        _ => None,
    }
}
