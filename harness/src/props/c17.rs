//! C17 — variances are never negative and means stay within the data range.
use super::c08::build_tree;
use crate::engine::*;
use crate::gen;
use crate::hist::Hist;
use crate::oracle::U;
use crate::types::*;
use average::{Covariance, Kurtosis, Mean, Moments4, Skewness, Variance, WeightedMean, WeightedMeanWithError};
use proptest::collection::vec;
use proptest::prelude::*;
use serde::{Deserialize, Serialize};

#[derive(Clone, Debug, Serialize, Deserialize)]
pub struct Ill {
    #[serde(with = "fvec")]
    pub xs: Vec<f64>,
    /// second coordinate for Covariance
    #[serde(with = "fvec")]
    pub ys: Vec<f64>,
    /// weights >= 0
    #[serde(with = "fvec")]
    pub ws: Vec<f64>,
    pub cuts: Vec<usize>,
    pub merges: Vec<usize>,
    /// ingestion path of every chunk of the pair estimators (see c08::build_chunk)
    #[serde(default)]
    pub path: u8,
}

fn tree<T: Uni>(c: &Ill) -> T {
    gen::run_merge_tree(c.xs.len(), &c.cuts, &c.merges, |a, b| super::common::build_uni::<T>(&c.xs[a..b], a + b + c.path as usize), |l: &mut T, r: &T| l.merge(r))
}

fn nonneg(o: &mut Obs, what: &str, v: f64) -> TestResult {
    o.evals += 1;
    if !(v >= 0.0) {
        return fail(&format!("sign:{}", what), format!("{} = {:?}: a variance must be >= 0 (and not NaN) whenever it is defined", what, v));
    }
    Ok(())
}
fn real(o: &mut Obs, what: &str, v: f64) -> TestResult {
    o.evals += 1;
    if v.is_nan() {
        return fail(&format!("sign:{}", what), format!("{} is NaN: the error must be a real number", what));
    }
    Ok(())
}
fn in_range(o: &mut Obs, what: &str, v: f64, lo: f64, hi: f64, tol: f64) -> TestResult {
    o.evals += 1;
    let out = (v - hi).max(lo - v).max(0.0);
    if tol > 0.0 {
        o.hard(out / tol);
    }
    if !(v >= lo - tol && v <= hi + tol) {
        return fail(&format!("range:{}", what), format!("{} = {:e} lies outside the data range [{:e}, {:e}] by more than {:e}", what, v, lo, hi, tol));
    }
    Ok(())
}

pub struct Signs;
impl Check for Signs {
    type Case = Ill;
    fn name(&self) -> &'static str {
        "signs_and_ranges"
    }
    fn fp(&self, c: &Ill, h: &mut Fp) {
        h.fs(&c.xs).fs(&c.ys).fs(&c.ws).us(&c.cuts).us(&c.merges).u(c.path as u64);
    }
    fn test(&self, c: &Ill, o: &mut Obs) -> TestResult {
        let n = c.xs.len();
        let mx = c.xs.iter().chain(c.ys.iter()).fold(0.0f64, |a, x| a.max(x.abs()));
        let finite = c.xs.iter().chain(c.ys.iter()).all(|x| x.is_finite());
        let lim_ok = (mx <= 1e150 && n <= 500) || (mx <= 1e140 && n <= 30000);
        if n == 0 || !finite || !lim_ok || c.ys.len() != n || c.ws.len() != n || c.ws.iter().any(|w| !(*w >= 0.0 && *w <= 1e70)) {
            o.discarded = Some("outside the C17 domain (finite, |x| <= 1e150 with n <= 500, or |x| <= 1e140)");
            return Ok(());
        }
        let nf = n as f64;
        let rng = |v: &[f64]| (v.iter().cloned().fold(f64::INFINITY, f64::min), v.iter().cloned().fold(f64::NEG_INFINITY, f64::max));
        let (lo, hi) = rng(&c.xs);
        let m = lo.abs().max(hi.abs());
        let tol = 8.0 * nf * U * m + nf * 5e-324;
        // moment family
        let a: Mean = tree(c);
        in_range(o, "Mean::mean", a.mean(), lo, hi, tol)?;
        let v: Variance = tree(c);
        in_range(o, "Variance::mean", v.mean(), lo, hi, tol)?;
        nonneg(o, "Variance::population_variance", v.population_variance())?;
        nonneg(o, "Variance::variance_of_mean", v.variance_of_mean())?;
        real(o, "Variance::error", v.error())?;
        let s: Skewness = tree(c);
        in_range(o, "Skewness::mean", s.mean(), lo, hi, tol)?;
        nonneg(o, "Skewness::population_variance", s.population_variance())?;
        real(o, "Skewness::error_mean", s.error_mean())?;
        let k: Kurtosis = tree(c);
        in_range(o, "Kurtosis::mean", k.mean(), lo, hi, tol)?;
        nonneg(o, "Kurtosis::population_variance", k.population_variance())?;
        real(o, "Kurtosis::error_mean", k.error_mean())?;
        let m4: Moments4 = tree(c);
        in_range(o, "Moments4::mean", m4.mean(), lo, hi, tol)?;
        nonneg(o, "Moments4::central_moment(2)", m4.central_moment(2))?;
        if n >= 2 {
            nonneg(o, "Variance::sample_variance", v.sample_variance())?;
            nonneg(o, "Skewness::sample_variance", s.sample_variance())?;
            nonneg(o, "Kurtosis::sample_variance", k.sample_variance())?;
            nonneg(o, "Moments4::sample_variance", m4.sample_variance())?;
        }
        // covariance
        let pairs: Vec<(f64, f64)> = c.xs.iter().copied().zip(c.ys.iter().copied()).collect();
        let cv: Covariance = build_tree(&pairs, &c.cuts, &c.merges, c.path);
        let (ylo, yhi) = rng(&c.ys);
        let ym = ylo.abs().max(yhi.abs());
        in_range(o, "Covariance::mean_x", cv.mean_x(), lo, hi, tol)?;
        in_range(o, "Covariance::mean_y", cv.mean_y(), ylo, yhi, 8.0 * nf * U * ym + nf * 5e-324)?;
        nonneg(o, "Covariance::population_variance_x", cv.population_variance_x())?;
        nonneg(o, "Covariance::population_variance_y", cv.population_variance_y())?;
        if n >= 2 {
            nonneg(o, "Covariance::sample_variance_x", cv.sample_variance_x())?;
            nonneg(o, "Covariance::sample_variance_y", cv.sample_variance_y())?;
        }
        // weighted
        let wsum: f64 = c.ws.iter().sum();
        if wsum > 0.0 {
            let wp: Vec<(f64, f64)> = c.xs.iter().copied().zip(c.ws.iter().copied()).collect();
            let wm: WeightedMean = build_tree(&wp, &c.cuts, &c.merges, c.path);
            let we: WeightedMeanWithError = build_tree(&wp, &c.cuts, &c.merges, c.path);
            let contrib: Vec<f64> = wp.iter().filter(|p| p.1 > 0.0).map(|p| p.0).collect();
            let (clo, chi) = rng(&contrib);
            let cm = clo.abs().max(chi.abs());
            let wtol = 16.0 * nf * U * cm + nf * 5e-324;
            // Known finding K1: when weight_sum * weighted_avg underflows into the
            // subnormal range (max|x| * total weight < 2^-1022) WeightedMean::merge
            // loses relative precision in the products and the merged mean can
            // leave the data range. Such violations carry their own signature so
            // that KNOWN_FINDINGS.txt can list exactly them; everything else keeps
            // the generic signature and is reported.
            let underflow_regime = !c.cuts.is_empty() && cm * wsum < f64::MIN_POSITIVE;
            for (nm, v) in [("WeightedMean::mean", wm.mean()), ("WeightedMeanWithError::weighted_mean", we.weighted_mean())] {
                match in_range(o, nm, v, clo, chi, wtol) {
                    Err(f) if underflow_regime => {
                        return Err(Fail { sig: "range:weighted-mean-merge:subnormal-products".into(), msg: format!("{} (max|x| * total weight = {:e} < 2^-1022: the products in WeightedMean::merge are subnormal)", f.msg, cm * wsum) })
                    }
                    r => r?,
                }
            }
            in_range(o, "WeightedMeanWithError::unweighted_mean", we.unweighted_mean(), lo, hi, tol)?;
            nonneg(o, "WeightedMeanWithError::population_variance", we.population_variance())?;
            let slack = nf * 2f64.powi(-50);
            o.evals += 1;
            let el = we.effective_len();
            if !(el >= 1.0 - slack && el <= we.len() as f64 * (1.0 + slack)) {
                return fail("range:effective_len", format!("effective_len = {:?} is outside [1, len() = {}]", el, we.len()));
            }
            if n >= 2 {
                nonneg(o, "WeightedMeanWithError::sample_variance", we.sample_variance())?;
                nonneg(o, "WeightedMeanWithError::variance_of_weighted_mean", we.variance_of_weighted_mean())?;
                real(o, "WeightedMeanWithError::error", we.error())?;
            }
        }
        // classes
        let spread = hi - lo;
        let ulp = m * f64::EPSILON;
        let sd_proxy = spread.max(0.0);
        if sd_proxy == 0.0 || m / sd_proxy > 1e12 {
            o.class("kappa > 1e12 (or zero spread)");
        }
        if spread <= 4.0 * ulp {
            o.class("spread <= 4 ulp");
        }
        if m < 1e-300 {
            o.class("|x| < 1e-300 (subnormal range)");
        }
        if m > 1e100 {
            o.class("|x| > 1e100");
        }
        if !c.cuts.is_empty() {
            o.class("merged");
        }
        o.nontrivial = (sd_proxy == 0.0 || m / sd_proxy > 1e12) || spread <= 4.0 * ulp || m < 1e-300 || m > 1e100;
        Ok(())
    }
    fn simplify(&self, c: &Ill) -> Vec<Ill> {
        let mut out = Vec::new();
        if !c.cuts.is_empty() {
            out.push(Ill { cuts: vec![], merges: vec![], ..c.clone() });
        }
        if c.path != 0 {
            out.push(Ill { path: 0, ..c.clone() });
        }
        for i in 0..c.xs.len().min(40) {
            let mut s = c.clone();
            s.xs.remove(i);
            s.ys.remove(i);
            s.ws.remove(i);
            s.cuts = c.cuts.iter().map(|&k| if k > i { k - 1 } else { k }).collect();
            out.push(s);
        }
        out
    }
}

/// random counts in a LEN-10 histogram: bin variances in [0, total/4]
#[derive(Clone, Debug, Serialize, Deserialize)]
pub struct Counts {
    pub counts: Vec<u64>,
}
pub struct BinVar;
impl Check for BinVar {
    type Case = Counts;
    fn name(&self) -> &'static str {
        "bin_variances"
    }
    fn fp(&self, c: &Counts, h: &mut Fp) {
        for &x in &c.counts {
            h.u(x);
        }
    }
    fn test(&self, c: &Counts, o: &mut Obs) -> TestResult {
        if c.counts.len() != 10 || c.counts.iter().any(|&x| x > 1 << 40) {
            o.discarded = Some("needs 10 counts below 2^40");
            return Ok(());
        }
        let total: u64 = c.counts.iter().sum();
        if total == 0 {
            o.discarded = Some("empty histogram");
            return Ok(());
        }
        // build the histogram through its public API: add, *=, merge and += (binary expansion of the
        // count). The history is mixed on purpose: in every other bin the first sample is added directly
        // to the accumulator, and the receiver of the combination rotates between merge, += and
        // "merge the accumulator into the increment" — a bookkeeping field maintained by some of these
        // operations but not by others shows up as a variance outside [0, total/4].
        let edges: Vec<f64> = (0..=10).map(|i| i as f64).collect();
        let mut acc = <crate::h10::Histogram as Hist>::from_ranges(&edges).unwrap();
        for (i, &cnt) in c.counts.iter().enumerate() {
            // acc += bin_i * cnt, via doubling
            let mut bit = <crate::h10::Histogram as Hist>::from_ranges(&edges).unwrap();
            let _ = Hist::add(&mut bit, i as f64 + 0.5);
            let mut k = cnt;
            if k > 0 && i % 2 == 0 {
                let _ = Hist::add(&mut acc, i as f64 + 0.25);
                k -= 1;
            }
            let mut pos = 0usize;
            while k > 0 {
                if k & 1 == 1 {
                    match (i + pos) % 3 {
                        0 => Hist::merge(&mut acc, &bit),
                        1 => Hist::add_assign(&mut acc, &bit),
                        _ => {
                            let mut t = bit.clone();
                            Hist::merge(&mut t, &acc);
                            acc = t;
                        }
                    }
                }
                Hist::mul_assign(&mut bit, 2);
                k >>= 1;
                pos += 1;
            }
        }
        if Hist::bins(&acc) != c.counts {
            return fail("binvar:construction", format!("could not construct counts {:?}: got {:?}", c.counts, Hist::bins(&acc)));
        }
        let nf = total as f64;
        let vs = Hist::variances(&acc);
        for i in 0..10 {
            let v1 = Hist::variance(&acc, i);
            for (nm, v) in [("variance(i)", v1), ("variances()[i]", vs[i])] {
                o.evals += 1;
                if !(v >= -nf * 2f64.powi(-50) && v <= nf / 4.0 * (1.0 + 2f64.powi(-50))) {
                    return fail("range:bin-variance", format!("{} of bin {} = {:?} for counts {:?}: outside [0, total/4 = {}]", nm, i, v, c.counts, nf / 4.0));
                }
            }
        }
        o.nontrivial = c.counts.iter().filter(|&&x| x > 0).count() >= 2;
        if c.counts.iter().any(|&x| x == total) {
            o.class("all samples in one bin");
        }
        Ok(())
    }
}

pub fn ill_values(kind: u8, n: usize, lmag: f64, raw: &[f64]) -> Vec<f64> {
    let mag = 10f64.powf(lmag);
    (0..n)
        .map(|i| {
            let u = raw[i % raw.len()];
            match kind % 7 {
                0 => mag * (1.0 + u * 1e-15),
                1 => mag * gen::probit(u),
                2 => f64::from_bits(mag.to_bits() + (u * 3.0) as u64),
                3 => if u < 0.5 { mag } else { mag * 1e-20 * gen::probit(2.0 * u - 1.0) },
                4 => f64::from_bits((u * (1u64 << 20) as f64) as u64) * if i % 2 == 0 { 1.0 } else { -1.0 },
                5 => mag + mag * 1e-15 * ((u * 8.0).floor()),
                _ => -mag * (1.0 + (i % 2) as f64 * f64::EPSILON),
            }
        })
        .collect()
}

pub fn ill_strategy() -> impl Strategy<Value = Ill> {
    (0u8..7, prop_oneof![3 => 1usize..12, 3 => 12usize..300, 1 => 300usize..500], -300.0..150.0f64, vec(0.0..1.0f64, 1..64), vec(0.0..1.0f64, 1..64), 0u8..7, prop_oneof![1 => Just(None), 2 => (gen::cut_mode(), gen::tree_mode()).prop_map(Some)], 0u8..7, -300.0..140.0f64, 0u8..super::c08::PATHS, prop_oneof![3 => Just(0i32), 1 => proptest::sample::select(vec![-200i32, -100, -60, -40, 60, 200])])
        .prop_map(|(kind, n, lmag, raw, raw2, zm, tree, ykind, ylmag, path, wk)| {
            let xs = ill_values(kind, n, lmag, &raw);
            let ys = ill_values(ykind, n, ylmag, &raw2);
            let wr: Vec<(f64, f64)> = raw.iter().zip(raw2.iter().cycle()).map(|(a, b)| (*a, *b)).collect();
            // any non-negative weights are in C17's domain: scale by an exact power of two (the weighted
            // mean is invariant under it, also in floating point)
            let ws: Vec<f64> = super::c08::weights_for(n, &wr, zm).into_iter().map(|w| w * 2f64.powi(wk)).collect();
            let (cuts, merges) = match tree {
                None => (vec![], vec![]),
                Some((cm, tm)) => {
                    let cuts = gen::make_cuts(&cm, n);
                    let merges = gen::make_merges(&tm, cuts.len() + 1);
                    (cuts, merges)
                }
            };
            Ill { xs, ys, ws, cuts, merges, path }
        })
}

pub fn run(cx: &Ctx) {
    cx.set_rule("cases = ill-conditioned sequences with NO restriction on kappa: magnitudes 10^U(-300,150), relative spreads of 1e-15, one-ulp spreads, a large value mixed with values 1e-20 times smaller, subnormals, offsets 1e15 times the spread, negative near-constant data; n up to 500; all chunkings and merge trees, plus the targeted family 'a run of tied values merged with one observation 1..3 ulps away', the pair estimators additionally through the eight ingestion paths of C08 (add, collect, extend, collect+continue); Mean, Variance, Skewness, Kurtosis, Moments4, Covariance (independent ill-conditioned y), WeightedMean/WeightedMeanWithError (weights >= 0, total > 0, zero weights placed as in C08, one case in four with all weights scaled by 2^-200 … 2^200). Oracle = sign/range predicates only: every defined variance >= 0 (NaN is a violation), error() not NaN, min - tol <= mean <= max + tol with tol = 8 n u max|x| + n 2^-1074 (weighted mean: 16, range and max over the observations with positive weight), 1 <= effective_len <= len() up to n 2^-50; plus random bin counts: variance(i), variances() in [0, total/4] up to rounding. Non-trivial = kappa > 1e12 or spread <= 4 ulp or |x| < 1e-300 or |x| > 1e100; distinct = hash of the inputs");
    cx.assume("overflow is outside the property: |x| <= 1e150 with n <= 500 keeps n^2*4*max|x|^2 below f64::MAX in the merge formulas");
    cx.label("fixed");
    cx.run_list(&Signs, vec![
        // reproducer of known finding K1 (see KNOWN_FINDINGS.txt)
        Ill { xs: vec![-4.484846e-318, -4.484846e-318], ys: vec![1.0, 1.0], ws: vec![1e-6, 1e-6], cuts: vec![1], merges: vec![0], path: 0 },
        Ill { xs: vec![1e9, 1e9 + 1.0, 1e9 + 2.0], ys: vec![-1.0, 0.0, 1.0], ws: vec![0.0, 1.0, 1.0], cuts: vec![1], merges: vec![0], path: 0 },
    ], "K1 reproducer and a plain offset triple");
    cx.label("generated");
    cx.run_pt(&Signs, cx.by(10000, 600000), cx.workers, ill_strategy, "7 kinds of ill-conditioned data x n 1..500 x magnitudes 1e-300..1e150 x merge trees");
    // a run of k tied values merged with a single observation a few ulps away (and the mirror image): the
    // rounded merged mean can land one ulp outside the interval of the two chunk means, which turns any
    // update of the form (x - old_mean) * (x - new_mean) negative. Rare per case (about one (a, k) pair in
    // 5000), hence many small cases.
    cx.label("tied-run-plus-singleton");
    let tied = || {
        (any::<u64>(), -300i32..300, 1usize..60, 1u64..4, any::<bool>(), any::<bool>(), 0u8..super::c08::PATHS).prop_map(|(mant, e, k, ulps, above, single_right, path)| {
            let a = (1.0 + (mant >> 12) as f64 / (1u64 << 52) as f64) * 2f64.powi(e);
            let x = f64::from_bits(if above { a.to_bits() + ulps } else { a.to_bits() - ulps });
            let mut xs = vec![a; k];
            let cuts = if single_right {
                xs.push(x);
                vec![k]
            } else {
                xs.insert(0, x);
                vec![1]
            };
            let n = xs.len();
            Ill { ys: xs.iter().rev().copied().collect(), ws: vec![1.0; n], xs, cuts, merges: vec![0], path }
        })
    };
    cx.run_pt(&Signs, cx.by(20000, 400000), cx.workers, tied, "k in 1..60 copies of a random a (any binade 2^-300..2^300) and one value 1..3 ulps away, merged as (run | singleton) or (singleton | run)");
    cx.label("generated");
    let counts = || {
        (vec(prop_oneof![2 => Just(0u64), 3 => 0u64..10, 2 => 0u64..100000, 1 => 0u64..(1u64 << 40)], 10), 0u8..4, 0usize..10).prop_map(|(mut counts, mode, keep)| {
            // mode 0: all samples in a single bin (the extreme of the [0, total/4] range)
            if mode == 0 {
                let v = counts[keep].max(1);
                counts = vec![0; 10];
                counts[keep] = v;
            }
            Counts { counts }
        })
    };
    cx.run_pt(&BinVar, cx.by(2000, 400000), cx.workers, counts, "random counts in a 10-bin histogram built through a mixed history of add, *=, merge (both directions) and +=");
}

pub fn replay(check: &str, case: &serde_json::Value) -> Option<Result<(), String>> {
    match check {
        "signs_and_ranges" => Some(replay_case(&Signs, case)),
        "bin_variances" => Some(replay_case(&BinVar, case)),
        _ => None,
    }
}
