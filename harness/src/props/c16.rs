//! C16 — empty, one-observation and constant samples follow the documented contract.
use crate::engine::*;
use crate::types::*;
use average::{Covariance, Estimate, Kurtosis, Max, Mean, Min, Moments4, Quantile, Skewness, Variance, WeightedMean, WeightedMeanWithError};
use proptest::prelude::*;
use serde::{Deserialize, Serialize};

#[derive(Clone, Debug, Serialize, Deserialize)]
pub struct S16 {
    pub ty: String,
    #[serde(with = "fvec")]
    pub xs: Vec<f64>,
    /// weights (weighted types) or y values (Covariance); ignored otherwise
    #[serde(with = "fvec")]
    pub ys: Vec<f64>,
    /// feed the moment-family estimators through Extend in three pieces (1, 2, rest) instead of add
    #[serde(default)]
    pub via_extend: bool,
}

fn feed16<T: Uni>(xs: &[f64], via_extend: bool) -> T {
    let mut t = T::new();
    if via_extend && T::HAS_EXTEND {
        let a = xs.len().min(1);
        let b = xs.len().min(3);
        t.extend_val(&xs[..a]);
        t.extend_ref(&xs[a..b]);
        t.extend_val(&xs[b..]);
    } else {
        for &x in xs {
            t.add(x);
        }
    }
    t
}

struct J<'a> {
    o: &'a mut Obs,
    ty: &'a str,
    n: usize,
}
impl<'a> J<'a> {
    fn nan(&mut self, what: &str, v: f64) -> TestResult {
        self.o.evals += 1;
        if !v.is_nan() {
            return fail(&format!("sentinel:{}::{}", self.ty, what), format!("{}::{} with {} observations = {:?}; the documented sentinel is NaN", self.ty, what, self.n, v));
        }
        Ok(())
    }
    fn eq(&mut self, what: &str, v: f64, want: f64) -> TestResult {
        self.o.evals += 1;
        if !(v == want) {
            return fail(&format!("sentinel:{}::{}", self.ty, what), format!("{}::{} with {} observations = {:?}; must be exactly {:?}", self.ty, what, self.n, v, want));
        }
        Ok(())
    }
    fn zero(&mut self, what: &str, v: f64) -> TestResult {
        self.eq(what, v, 0.0)
    }
    fn not_nan(&mut self, what: &str, v: f64) -> TestResult {
        self.o.evals += 1;
        if v.is_nan() {
            return fail(&format!("sentinel:{}::{}", self.ty, what), format!("{}::{} with {} observations is NaN but is defined", self.ty, what, self.n));
        }
        Ok(())
    }
}

fn moments_block<T: Uni>(name: &str, order: usize, xs: &[f64], constant: bool, via_extend: bool, o: &mut Obs, cm: impl Fn(&T, usize) -> f64, sm: impl Fn(&T, usize) -> f64, mean: impl Fn(&T) -> f64, sv: impl Fn(&T) -> f64, ssk: impl Fn(&T) -> f64, sek: impl Fn(&T) -> f64) -> TestResult {
    let n = xs.len();
    let t: T = feed16(xs, via_extend);
    let mut j = J { o, ty: name, n };
    j.eq("central_moment(0)", cm(&t, 0), 1.0)?;
    j.eq("central_moment(1)", cm(&t, 1), 0.0)?;
    j.eq("standardized_moment(0)", sm(&t, 0), n as f64)?;
    j.eq("standardized_moment(1)", sm(&t, 1), 0.0)?;
    j.eq("standardized_moment(2)", sm(&t, 2), 1.0)?;
    if n == 0 {
        j.nan("mean", mean(&t))?;
        for p in 2..=order {
            j.nan(&format!("central_moment({})", p), cm(&t, p))?;
            if p >= 3 {
                j.nan(&format!("standardized_moment({})", p), sm(&t, p))?;
            }
        }
        j.nan("sample_skewness", ssk(&t))?;
    }
    if n < 2 {
        j.nan("sample_variance", sv(&t))?;
    }
    if n < 4 {
        j.nan("sample_excess_kurtosis", sek(&t))?;
    }
    if n == 1 {
        j.zero("sample_skewness", ssk(&t))?;
    }
    if n >= 1 && constant {
        j.eq("mean", mean(&t), xs[0])?;
        for p in 1..=order {
            j.zero(&format!("central_moment({})", p), cm(&t, p))?;
        }
        if n >= 2 {
            j.zero("sample_variance", sv(&t))?;
        }
        // the one documented panic: standardized_moment(p >= 3) asserts non-zero variance
        for p in 3..=order {
            match no_panic(|| sm(&t, p)) {
                Ok(v) => {
                    // not panicking is fine too, but then the value must not be garbage
                    if !(v == 0.0 || v.is_nan()) {
                        return fail("sentinel:standardized-constant", format!("{}::standardized_moment({}) on constant data = {:?}", name, p, v));
                    }
                }
                Err(m) => {
                    if !(m.contains("assertion") && m.contains("left != right")) {
                        return fail("sentinel:unexpected-panic", format!("{}::standardized_moment({}) on constant data panicked with something other than the documented zero-variance assertion: {}", name, p, m));
                    }
                }
            }
        }
    } else if n >= 2 {
        // non-constant small samples: everything is computable without panicking
        for p in 0..=order {
            j.not_nan(&format!("central_moment({})", p), cm(&t, p))?;
            j.not_nan(&format!("standardized_moment({})", p), sm(&t, p))?;
        }
        j.not_nan("sample_variance", sv(&t))?;
    }
    Ok(())
}

fn run16(c: &S16, o: &mut Obs) -> TestResult {
    let xs = &c.xs;
    let n = xs.len();
    let constant = n >= 1 && xs.iter().all(|x| *x == xs[0]);
    let ty = c.ty.as_str();
    match ty {
        "Mean" => {
            let t: Mean = if c.via_extend { feed16(xs, true) } else { xs.iter().collect() };
            let mut j = J { o, ty, n };
            j.eq("len", t.len() as f64, n as f64)?;
            if n == 0 {
                j.nan("mean", t.mean())?;
                j.nan("estimate", t.estimate())?;
            } else if constant {
                j.eq("mean", t.mean(), xs[0])?;
            } else {
                j.not_nan("mean", t.mean())?;
            }
        }
        "Variance" => {
            let t: Variance = feed16(xs, c.via_extend);
            let mut j = J { o, ty, n };
            if n == 0 {
                j.nan("mean", t.mean())?;
                j.nan("population_variance", t.population_variance())?;
                j.nan("sample_variance", t.sample_variance())?;
                j.nan("variance_of_mean", t.variance_of_mean())?;
                j.nan("error", t.error())?;
                j.nan("estimate", t.estimate())?;
            }
            if n == 1 {
                j.nan("sample_variance", t.sample_variance())?;
            }
            if n >= 1 && constant {
                j.eq("mean", t.mean(), xs[0])?;
                j.zero("population_variance", t.population_variance())?;
                j.zero("variance_of_mean", t.variance_of_mean())?;
                j.zero("error", t.error())?;
                if n >= 2 {
                    j.zero("sample_variance", t.sample_variance())?;
                }
            } else if n >= 2 {
                for (nm, v) in [("population_variance", t.population_variance()), ("sample_variance", t.sample_variance()), ("variance_of_mean", t.variance_of_mean()), ("error", t.error())] {
                    j.not_nan(nm, v)?;
                }
            }
        }
        "Skewness" | "Kurtosis" => {
            let s: Skewness = feed16(xs, c.via_extend);
            let k: Kurtosis = feed16(xs, c.via_extend);
            let is_k = ty == "Kurtosis";
            let (mean, pv, sv, em, sk) = if is_k { (k.mean(), k.population_variance(), k.sample_variance(), k.error_mean(), k.skewness()) } else { (s.mean(), s.population_variance(), s.sample_variance(), s.error_mean(), s.skewness()) };
            let mut j = J { o, ty, n };
            if n == 0 {
                j.nan("mean", mean)?;
                j.nan("population_variance", pv)?;
                j.nan("sample_variance", sv)?;
                j.nan("error_mean", em)?;
                j.nan("skewness", sk)?;
                if is_k {
                    j.nan("kurtosis", k.kurtosis())?;
                }
            }
            if n == 1 {
                j.nan("sample_variance", sv)?;
            }
            if n >= 1 && constant {
                j.eq("mean", mean, xs[0])?;
                j.zero("population_variance", pv)?;
                j.zero("error_mean", em)?;
                j.zero("skewness", sk)?;
                if is_k {
                    j.zero("kurtosis", k.kurtosis())?;
                }
            } else if n >= 2 {
                j.not_nan("skewness", sk)?;
                j.not_nan("population_variance", pv)?;
                if is_k {
                    j.not_nan("kurtosis", k.kurtosis())?;
                }
            }
        }
        "Moments4" => moments_block::<Moments4>(ty, 4, xs, constant, c.via_extend, o, |t, p| t.central_moment(p), |t, p| t.standardized_moment(p), |t| t.mean(), |t| t.sample_variance(), |t| t.sample_skewness(), |t| t.sample_excess_kurtosis())?,
        "M6" => moments_block::<M6>(ty, 6, xs, constant, c.via_extend, o, |t, p| t.central_moment(p), |t, p| t.standardized_moment(p), |t| t.mean(), |t| t.sample_variance(), |t| t.sample_skewness(), |t| t.sample_excess_kurtosis())?,
        "M10" => {
            // keep |x|^10 representable
            if xs.iter().any(|x| x.abs() > 1e25 || (*x != 0.0 && x.abs() < 1e-25)) {
                o.discarded = Some("order-10 arithmetic precondition");
                return Ok(());
            }
            moments_block::<M10>(ty, 10, xs, constant, c.via_extend, o, |t, p| t.central_moment(p), |t, p| t.standardized_moment(p), |t| t.mean(), |t| t.sample_variance(), |t| t.sample_skewness(), |t| t.sample_excess_kurtosis())?
        }
        "Min" | "Max" => {
            let mn: Min = xs.iter().collect();
            let mx: Max = xs.iter().collect();
            let mut j = J { o, ty, n };
            if n == 0 {
                j.eq("min", mn.min(), f64::INFINITY)?;
                j.eq("max", mx.max(), f64::NEG_INFINITY)?;
                j.eq("Min::default().min", Min::default().min(), f64::INFINITY)?;
                j.eq("Max::default().max", Max::default().max(), f64::NEG_INFINITY)?;
            } else if constant {
                j.eq("min", mn.min(), xs[0])?;
                j.eq("max", mx.max(), xs[0])?;
            }
        }
        "Quantile" => {
            for &p in &[0.0, 0.5, 0.9, 1.0] {
                let mut q = Quantile::new(p);
                for &x in xs {
                    q.add(x);
                }
                let mut j = J { o: &mut *o, ty, n };
                j.eq("len", q.len() as f64, n as f64)?;
                if n == 0 {
                    j.nan("quantile", q.quantile())?;
                    j.nan("estimate", q.estimate())?;
                } else if constant {
                    j.eq("quantile", q.quantile(), xs[0])?;
                } else {
                    j.not_nan("quantile", q.quantile())?;
                }
            }
        }
        "WeightedMean" | "WeightedMeanWithError" => {
            // via_extend: the pairs arrive by reference (collect / extend in two pieces / extend from an
            // iterator without a length, rotating with n) instead of through add
            let pairs: Vec<(f64, f64)> = xs.iter().copied().zip(c.ys.iter().copied()).collect();
            let (a, b): (WeightedMean, WeightedMeanWithError) = if c.via_extend {
                let mode = [2u8, 4, 9][n % 3];
                (super::c08::build_chunk(&pairs, mode), super::c08::build_chunk(&pairs, mode))
            } else {
                (super::c08::build_chunk(&pairs, 0), super::c08::build_chunk(&pairs, 0))
            };
            let wsum: f64 = c.ys.iter().take(n).sum();
            let mut j = J { o, ty, n };
            if n == 0 {
                j.nan("WeightedMean::mean", a.mean())?;
                j.zero("WeightedMean::sum_weights", a.sum_weights())?;
                j.nan("weighted_mean", b.weighted_mean())?;
                j.nan("unweighted_mean", b.unweighted_mean())?;
                j.zero("sum_weights", b.sum_weights())?;
                j.zero("sum_weights_sq", b.sum_weights_sq())?;
                j.zero("effective_len", b.effective_len())?;
                j.nan("population_variance", b.population_variance())?;
                j.nan("sample_variance", b.sample_variance())?;
                j.nan("variance_of_weighted_mean", b.variance_of_weighted_mean())?;
                j.nan("error", b.error())?;
                j.eq("len", b.len() as f64, 0.0)?;
            } else {
                j.eq("len", b.len() as f64, n as f64)?;
                if n == 1 {
                    j.nan("sample_variance", b.sample_variance())?;
                }
                if wsum == 0.0 {
                    // weighted statistics whose total weight is zero
                    j.nan("WeightedMean::mean (zero total weight)", a.mean())?;
                    j.nan("weighted_mean (zero total weight)", b.weighted_mean())?;
                    j.nan("variance_of_weighted_mean (zero total weight)", b.variance_of_weighted_mean())?;
                    j.nan("error (zero total weight)", b.error())?;
                    j.zero("sum_weights (zero total weight)", b.sum_weights())?;
                } else if constant {
                    j.eq("WeightedMean::mean", a.mean(), xs[0])?;
                    j.eq("weighted_mean", b.weighted_mean(), xs[0])?;
                    j.eq("unweighted_mean", b.unweighted_mean(), xs[0])?;
                    j.zero("population_variance", b.population_variance())?;
                    if n >= 2 {
                        j.zero("variance_of_weighted_mean", b.variance_of_weighted_mean())?;
                        j.zero("error", b.error())?;
                    }
                } else {
                    j.not_nan("weighted_mean", b.weighted_mean())?;
                    j.not_nan("WeightedMean::mean", a.mean())?;
                }
            }
        }
        "Covariance" => {
            let pairs: Vec<(f64, f64)> = xs.iter().copied().zip(c.ys.iter().copied()).collect();
            let t: Covariance = super::c08::build_chunk(&pairs, if c.via_extend { [2u8, 4, 9][n % 3] } else { 0 });
            let constant_y = n >= 1 && c.ys.iter().take(n).all(|y| *y == c.ys[0]);
            let mut j = J { o, ty, n };
            j.eq("len", t.len() as f64, n as f64)?;
            if n == 0 {
                for (nm, v) in [
                    ("mean_x", t.mean_x()),
                    ("mean_y", t.mean_y()),
                    ("sample_variance_x", t.sample_variance_x()),
                    ("population_variance_x", t.population_variance_x()),
                    ("sample_variance_y", t.sample_variance_y()),
                    ("population_variance_y", t.population_variance_y()),
                    ("sample_covariance", t.sample_covariance()),
                    ("population_covariance", t.population_covariance()),
                    ("pearson", t.pearson()),
                ] {
                    j.nan(nm, v)?;
                }
            }
            if n == 1 {
                j.nan("sample_variance_x", t.sample_variance_x())?;
                j.nan("sample_variance_y", t.sample_variance_y())?;
                j.nan("sample_covariance", t.sample_covariance())?;
                j.nan("pearson", t.pearson())?;
            }
            if n >= 1 && constant && constant_y {
                j.eq("mean_x", t.mean_x(), xs[0])?;
                j.eq("mean_y", t.mean_y(), c.ys[0])?;
                j.zero("population_variance_x", t.population_variance_x())?;
                j.zero("population_variance_y", t.population_variance_y())?;
                j.zero("population_covariance", t.population_covariance())?;
            } else if n >= 2 && !constant && !constant_y {
                j.not_nan("pearson", t.pearson())?;
                j.not_nan("sample_covariance", t.sample_covariance())?;
            }
        }
        _ => {
            o.discarded = Some("unknown type");
            return Ok(());
        }
    }
    o.nontrivial = true;
    o.classf(format!("{} n={}{}{}", ty, if n <= 4 { n.to_string() } else { ">4".into() }, if constant && n >= 2 { " constant" } else { "" }, if c.via_extend { " via extend" } else { "" }));
    Ok(())
}

pub struct Sentinels;
impl Check for Sentinels {
    type Case = S16;
    fn name(&self) -> &'static str {
        "sentinels"
    }
    fn fp(&self, c: &S16, h: &mut Fp) {
        h.s(&c.ty).fs(&c.xs).fs(&c.ys).u(c.via_extend as u64);
    }
    fn test(&self, c: &S16, o: &mut Obs) -> TestResult {
        // "does not panic": any panic that is not the documented assertion (handled inside) is a violation
        match no_panic(|| run16(c, o)) {
            Ok(r) => r,
            Err(m) => fail("sentinel:panic", format!("{} with {} observations panicked: {}", c.ty, c.xs.len(), m)),
        }
    }
}

pub const TYPES: [&str; 13] = ["Mean", "Variance", "Skewness", "Kurtosis", "Moments4", "M6", "M10", "Min", "Max", "Quantile", "WeightedMean", "WeightedMeanWithError", "Covariance"];

pub fn values() -> Vec<f64> {
    let mut v = vec![0.0, 1.0, -1.0, 1e30, -1e30, 1e-30, -1e-30, 0.1, -0.3, 1e9 + 1.0, 123456.789, 2.5];
    let mut k = -28;
    while k <= 28 {
        v.push(1.2345678901234567 * 10f64.powi(k));
        v.push(-7.654321 * 10f64.powi(k));
        k += 2;
    }
    v.truncate(60);
    v
}

pub fn cases() -> Vec<S16> {
    let mut out = Vec::new();
    for ty in TYPES.iter() {
        for &v in values().iter() {
            for n in 0..=4usize {
                // constant
                let xs = vec![v; n];
                for wmode in 0..3 {
                    let ys: Vec<f64> = match *ty {
                        "WeightedMean" | "WeightedMeanWithError" => (0..n).map(|i| match wmode { 0 => 1.5, 1 => 0.0, _ => if i == 0 { 0.0 } else { 2.0 } }).collect(),
                        "Covariance" => (0..n).map(|i| match wmode { 0 => -v, 1 => 7.0, _ => 7.0 + i as f64 }).collect(),
                        _ => vec![0.0; n],
                    };
                    out.push(S16 { ty: ty.to_string(), xs: xs.clone(), ys: ys.clone(), via_extend: false });
                    if !matches!(*ty, "WeightedMean" | "WeightedMeanWithError" | "Covariance") {
                        break;
                    }
                    if n >= 1 {
                        out.push(S16 { ty: ty.to_string(), xs: xs.clone(), ys, via_extend: true });
                    }
                }
                // non-constant
                if n >= 2 {
                    let xs: Vec<f64> = (0..n).map(|i| v * (1.0 + 0.25 * i as f64) + (i * i) as f64 * if v.abs() > 1e20 { v.abs() * 1e-3 } else { 1.0 }).collect();
                    let ys: Vec<f64> = match *ty {
                        "WeightedMean" | "WeightedMeanWithError" => (0..n).map(|i| 0.5 + i as f64).collect(),
                        _ => (0..n).map(|i| 3.0 - (i * i) as f64).collect(),
                    };
                    if matches!(*ty, "WeightedMean" | "WeightedMeanWithError") {
                        // non-constant observations whose total weight is zero
                        out.push(S16 { ty: ty.to_string(), xs: xs.clone(), ys: vec![0.0; n], via_extend: false });
                        // ... and with only the first weight zero
                        out.push(S16 { ty: ty.to_string(), xs: xs.clone(), ys: (0..n).map(|i| if i == 0 { 0.0 } else { 1.5 }).collect(), via_extend: false });
                    }
                    out.push(S16 { ty: ty.to_string(), xs, ys, via_extend: false });
                }
            }
            if out.len() % 7 == 0 || v == 0.0 || v.abs() == 1e30 || v.abs() == 1e-30 || v == 0.1 {
                for &n in &[5usize, 10, 100, 1000, 10000] {
                    let ys: Vec<f64> = match *ty {
                        "Covariance" => vec![-v; n],
                        _ => vec![1.5; n],
                    };
                    out.push(S16 { ty: ty.to_string(), xs: vec![v; n], ys: ys.clone(), via_extend: false });
                    out.push(S16 { ty: ty.to_string(), xs: vec![v; n], ys, via_extend: true });
                }
            }
        }
    }
    out
}

pub fn run(cx: &Ctx) {
    cx.set_rule("cases = the finite table {Mean, Variance, Skewness, Kurtosis, Moments4, define_moments! orders 6 and 10, Min, Max, Quantile (p in {0, 0.5, 0.9, 1}), WeightedMean, WeightedMeanWithError, Covariance} x every accessor x sample sizes 0, 1, 2, 3, 4 (constant and non-constant; weights all positive / all zero / first zero; the pair types fed through add and, a second time, by reference through collect / extend) x 60 values spanning the C01 domain (both signs, 0, 1e+-30), plus constant streams of length 5, 10, 100, 1000, 10000, plus generated values. Oracle: the sentinel table of C16 (NaN / +-inf / 0 / 1), no panic except the documented zero-variance assertion of standardized_moment(p >= 3) (checked to be exactly that assertion), and for one observation or a constant add-only stream mean() == x and population_variance, variance_of_mean, error, skewness, kurtosis, central_moment(p >= 1) == 0, never NaN. Non-trivial = every table cell; distinct = hash of (type, values, weights)");
    cx.assume("effective_len of a non-empty zero-total-weight sample is not fixed by the property and not judged");
    let all = cases();
    let total = all.len() as u64;
    cx.label("table");
    cx.run_enum(&Sentinels, total, |i| Some(all[i as usize].clone()), "13 types x 60 values x n in 0..=4 (constant and non-constant, 3 weight patterns) + constant streams up to 10^4");
    cx.label("generated");
    let strat = || {
        (0..TYPES.len(), super::c11::c01_value(), 0usize..5, prop_oneof![4 => Just(None), 1 => (5usize..3000).prop_map(Some)], super::c11::weight_value(), any::<bool>()).prop_map(|(t, v, n, long, w, zero_w)| {
            let n = long.unwrap_or(n);
            let ty = TYPES[t];
            let ys = match ty {
                "Covariance" => vec![w - 3.0; n],
                _ => vec![if zero_w { 0.0 } else { w.max(1e-6) }; n],
            };
            // every third case: non-constant observations (relevant for the zero-total-weight sentinels)
            let xs: Vec<f64> = if n >= 2 && (n + t) % 3 == 0 { (0..n).map(|i| v + (i as f64) * (v.abs() * 0.25).max(1.0)).collect() } else { vec![v; n] };
            S16 { ty: ty.to_string(), xs, ys, via_extend: (n + t) % 2 == 0 }
        })
    };
    cx.run_pt(&Sentinels, cx.by(5000, 1000000), cx.workers, strat, "random C01 values, n in 0..=4 or a constant stream of length 5..3000");
}

pub fn replay(check: &str, case: &serde_json::Value) -> Option<Result<(), String>> {
    match check {
        "sentinels" => Some(replay_case(&Sentinels, case)),
        _ => None,
    }
}
