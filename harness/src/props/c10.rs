//! C10 — bias-corrected sample statistics follow their textbook definitions.
use super::c04::rescale_for_order;
use super::common::*;
use crate::engine::*;
use crate::gen;
use crate::oracle::*;
use crate::types::*;
use average::{Kurtosis, Moments4, Skewness, Variance, WeightedMeanWithError};
use proptest::prelude::*;

pub struct SampleStats;

/// weights of the WeightedMeanWithError fed alongside: one in five is exactly zero (a zero-weight
/// observation still counts for len() and the unweighted sample variance, C08), at a position that
/// depends on the data so that a leading zero weight occurs too
fn weights(n: usize, salt: u64) -> Vec<f64> {
    (0..n).map(|i| [0.5, 1.5, 0.0, 2.5, 3.5][(i + (salt % 5) as usize) % 5]).collect()
}

impl Check for SampleStats {
    type Case = Xs;
    fn name(&self) -> &'static str {
        "sample_statistics"
    }
    fn fp(&self, c: &Xs, h: &mut Fp) {
        h.fs(&c.xs);
    }
    fn test(&self, c: &Xs, o: &mut Obs) -> TestResult {
        let xs = &c.xs;
        let n = xs.len();
        if !in_c01_domain(xs) {
            o.discarded = Some("value outside {0} U [1e-30,1e30]");
            return Ok(());
        }
        let v: Variance = feed(xs);
        let s: Skewness = feed(xs);
        let k: Kurtosis = feed(xs);
        let m4: Moments4 = feed(xs);
        let m6: M6 = feed(xs);
        let mut w = WeightedMeanWithError::new();
        for (x, wt) in xs.iter().zip(weights(n, xs.first().map_or(0, |x| x.to_bits() >> 3))) {
            w.add(*x, wt);
        }
        o.classf(format!("n={}", if n <= 5 { n.to_string() } else { n_bucket(n)[2..].to_string() }));
        if n < 2 {
            // threshold table below the minimum sample sizes
            judge_nan(o, "Variance::sample_variance (n<2)", v.sample_variance())?;
            judge_nan(o, "Skewness::sample_variance (n<2)", s.sample_variance())?;
            judge_nan(o, "Kurtosis::sample_variance (n<2)", k.sample_variance())?;
            judge_nan(o, "WeightedMeanWithError::sample_variance (n<2)", w.sample_variance())?;
            judge_nan(o, "Moments4::sample_variance (n<2)", m4.sample_variance())?;
            judge_nan(o, "M6::sample_variance (n<2)", m6.sample_variance())?;
            judge_nan(o, "Moments4::sample_excess_kurtosis (n<4)", m4.sample_excess_kurtosis())?;
            judge_nan(o, "M6::sample_excess_kurtosis (n<4)", m6.sample_excess_kurtosis())?;
            if n == 0 {
                judge_nan(o, "Moments4::sample_skewness (n=0)", m4.sample_skewness())?;
                judge_nan(o, "M6::sample_skewness (n=0)", m6.sample_skewness())?;
            } else {
                o.evals += 2;
                if m4.sample_skewness() != 0.0 || m6.sample_skewness() != 0.0 {
                    return fail("sentinel:sample_skewness(n=1)", format!("sample_skewness with one observation = {:?}/{:?}, documented 0", m4.sample_skewness(), m6.sample_skewness()));
                }
            }
            o.nontrivial = true;
            return Ok(());
        }
        let long = n > 200_000;
        let ex = match c01_gate(xs, if long { 4 } else { 6 }, 2, o) {
            Some(e) => e,
            None => return Ok(()),
        };
        let hi = !long && order_ok(&ex, 6);
        let r = 16.0 * ex.nku();
        let sv = ex.sample_var();
        let env = r * sv.to_f64();
        judge(o, "Variance::sample_variance", v.sample_variance(), &sv, env)?;
        judge(o, "Skewness::sample_variance", s.sample_variance(), &sv, env)?;
        judge(o, "Kurtosis::sample_variance", k.sample_variance(), &sv, env)?;
        judge(o, "WeightedMeanWithError::sample_variance", w.sample_variance(), &sv, env)?;
        {
            // the same through a merge: the first half carries weight 0 (it contributes to the
            // unweighted statistics only), in both merge directions
            use average::Merge;
            let h = n / 2;
            let mut left = WeightedMeanWithError::new();
            for x in &xs[..h] {
                left.add(*x, 0.0);
            }
            let right: WeightedMeanWithError = xs[h..].iter().map(|x| (*x, 1.5)).collect();
            let mut lr = left.clone();
            lr.merge(&right);
            let mut rl = right.clone();
            rl.merge(&left);
            judge(o, "WeightedMeanWithError::sample_variance (zero-weight chunk merged with a weighted one)", lr.sample_variance(), &sv, env)?;
            judge(o, "WeightedMeanWithError::sample_variance (weighted chunk merged with a zero-weight one)", rl.sample_variance(), &sv, env)?;
            let (mv, ms): (Variance, Skewness) = (xs[..h].iter().collect(), xs[..h].iter().collect());
            let (mut mv, mut ms) = (mv, ms);
            mv.merge(&xs[h..].iter().collect());
            ms.merge(&xs[h..].iter().collect());
            judge(o, "Variance::sample_variance (two merged halves)", mv.sample_variance(), &sv, env)?;
            judge(o, "Skewness::sample_variance (two merged halves)", ms.sample_variance(), &sv, env)?;
        }
        judge(o, "Moments4::sample_variance", m4.sample_variance(), &sv, env)?;
        if hi {
            judge(o, "M6::sample_variance", m6.sample_variance(), &sv, env)?;
        }
        let vom = ex.var_of_mean();
        judge(o, "Variance::variance_of_mean", v.variance_of_mean(), &vom, r * vom.to_f64())?;
        let er = vom.sqrt();
        judge(o, "Variance::error", v.error(), &er, r * er.to_f64())?;
        judge(o, "Skewness::error_mean", s.error_mean(), &er, r * er.to_f64())?;
        judge(o, "Kurtosis::error_mean", k.error_mean(), &er, r * er.to_f64())?;
        // relation to the population variance: sample = population * n/(n-1) (both exact sides)
        if n < 4 {
            judge_nan(o, "Moments4::sample_excess_kurtosis (n<4)", m4.sample_excess_kurtosis())?;
            judge_nan(o, "M6::sample_excess_kurtosis (n<4)", m6.sample_excess_kurtosis())?;
        }
        if n == 2 {
            // zero within the (population-skewness) envelope
            let env = 32.0 * ex.nku() * ex.beta(3);
            for (nm, g) in [("Moments4", m4.sample_skewness()), ("M6", m6.sample_skewness())] {
                if nm == "M6" && !hi {
                    continue;
                }
                o.evals += 1;
                if !(g.abs() <= env) {
                    return fail("sample_skewness(n=2)", format!("{}::sample_skewness of two observations = {:e}, must be zero within {:e}", nm, g, env));
                }
            }
        }
        // n >= 3 / n >= 4: the textbook estimators (inside Uni::judge)
        m4.judge(&ex, o)?;
        if hi {
            m6.judge(&ex, o)?;
        }
        let g1 = ex.standardized(3).to_f64();
        if n >= 3 {
            let nf = n as f64;
            let big_g1 = g1 * (nf * (nf - 1.0)).sqrt() / (nf - 2.0);
            o.nontrivial = big_g1.abs() > 0.1;
            o.class(if g1 < -0.1 { "negative skew" } else if g1 > 0.1 { "positive skew" } else { "near-symmetric" });
        } else {
            o.nontrivial = true;
        }
        Ok(())
    }
    fn simplify(&self, c: &Xs) -> Vec<Xs> {
        simplify_xs(&c.xs).into_iter().map(|xs| Xs { xs }).collect()
    }
}

pub fn fixed() -> Vec<Xs> {
    let mut v = vec![Xs { xs: vec![] }];
    let base = [1.0, 2.0, 3.0, 4.0, 5.0, 1.0];
    for n in 1..=6 {
        v.push(Xs { xs: base[..n].to_vec() });
        v.push(Xs { xs: base[..n].iter().map(|x| -x).collect() });
        v.push(Xs { xs: base[..n].iter().map(|x| 1e6 - x * 1e-3).collect() });
    }
    v
}

static SHAPES: [usize; 14] = [2, 3, 10, 10, 4, 5, 6, 11, 1, 0, 8, 12, 13, 13];

pub fn run(cx: &Ctx) {
    cx.set_rule("cases = sequences of length 0, 1, 2, 3, 4 and longer over the C01 domain (non-zero spread from n = 2), skewed in both directions; sample_variance of Variance, Skewness, Kurtosis, WeightedMeanWithError (fed with weights of which one in five is exactly zero), Moments4 and a harness-instantiated order-6 define_moments! type, variance_of_mean/error/error_mean, sample_skewness (adjusted Fisher-Pearson, n >= 3) and sample_excess_kurtosis (n >= 4) judged against the exact textbook values (envelopes of DESIGN.md 4.1); below the minimum sample sizes the documented NaN / 0 sentinels, and |sample_skewness| <= envelope for n = 2. All comparisons are NaN-aware. Non-trivial = |G1| > 0.1 (or a threshold-table case); distinct = hash of the sequence bits");
    cx.assume("exact oracle and envelopes as in C01/C04");
    let w = cx.workers;
    cx.label("fixed");
    cx.run_list(&SampleStats, fixed(), "the F3/F4 reproducers 1,2,3,4,5,1 (prefixes, negated, offset)");
    let cases = cx.by(3000, 30000);
    let small = || proptest::collection::vec(0.0..1.0f64, 0..7).prop_flat_map(|raw| gen::placement(9.0).prop_map(move |pl| Xs { xs: gen::build_dataset(&raw, &pl) }));
    cx.label("generated-small-n");
    cx.run_pt(&SampleStats, cases, w, small, "n 0..=6 (threshold table region)");
    let big = cx.by(3000, 30000);
    let strat = move || gen::dataset_shapes(&SHAPES, 2, 3000, big, 11.9).prop_map(|xs| Xs { xs: rescale_for_order(&xs, 6) });
    cx.label("generated");
    cx.run_pt(&SampleStats, cases, w, strat, "n 2..=30000 (quick 3000), both signs of skew");
    if cx.thorough() {
        // sample sizes at and beyond the C01 bound 10^6 (integer products of n overflow u64 from ~2.6e6 on)
        cx.label("bulk");
        let pl = gen::Placement { shape: 2, order: 0, ls: 0.0, lk: Some(1.0), neg: false };
        let cases: Vec<Xs> = [1_000_000usize, 2_700_000].iter().map(|&n| Xs { xs: gen::bulk_dataset(n, cx.seed ^ 0xC10 ^ n as u64, &pl) }).collect();
        cx.run_list(&SampleStats, cases, "two exponential samples of 10^6 and 2.7*10^6 observations");
    }
}

pub fn replay(check: &str, case: &serde_json::Value) -> Option<Result<(), String>> {
    match check {
        "sample_statistics" => Some(replay_case(&SampleStats, case)),
        _ => None,
    }
}
