//! C03 — Skewness and Kurtosis equal the exact standardized moments.
use super::c01::{climb_starts, mutate_xs};
use super::common::*;
use crate::engine::*;
use crate::gen;
use crate::oracle::*;
use average::{Kurtosis, Skewness};
use proptest::prelude::*;
use std::marker::PhantomData;

fn rule_s(ex: &Exact) -> bool {
    !ex.zero_spread && ex.standardized(3).to_f64().abs() > 0.1
}
fn rule_k(ex: &Exact) -> bool {
    !ex.zero_spread && (ex.standardized(3).to_f64().abs() > 0.1 || (ex.standardized(4).to_f64() - 3.0).abs() > 0.1)
}
pub fn skew_check() -> Stream<Skewness> {
    Stream { name: "skewness_stream", min_n: 2, rule: rule_s, _p: PhantomData }
}
pub fn kurt_check() -> Stream<Kurtosis> {
    Stream { name: "kurtosis_stream", min_n: 2, rule: rule_k, _p: PhantomData }
}

/// hand-picked data: two-point, single outlier, arithmetic progressions, with offsets
pub fn fixed_cases() -> Vec<Xs> {
    let mut v = Vec::new();
    for &off in &[0.0, 1e3, 1e6, 1e9] {
        for &sc in &[1.0, 1e-12, 1e12] {
            for &n in &[2usize, 3, 5, 17, 200] {
                // two-point, very asymmetric
                let mut xs: Vec<f64> = (0..n).map(|i| sc * (off + if i == 0 { 1.0 } else { 0.0 })).collect();
                v.push(Xs { xs: xs.clone() });
                xs.reverse();
                v.push(Xs { xs });
                // arithmetic progression
                v.push(Xs { xs: (0..n).map(|i| sc * (off + i as f64)).collect() });
                // negative outlier
                v.push(Xs { xs: (0..n).map(|i| sc * (off + if i == n / 2 { -50.0 } else { (i % 3) as f64 * 0.01 })).collect() });
            }
        }
    }
    v
}

// shapes weighted towards skewed (both signs), bimodal, outlier, two-point, progressions
static SHAPES: [usize; 16] = [2, 3, 3, 10, 10, 4, 4, 5, 6, 6, 7, 11, 1, 8, 13, 13];

/// Skewness/Kurtosis of two summaries with bit-identical means, merged: the arithmetic
/// coincidence delta == 0 (shards of identical composition, periodic data) judged with the same
/// envelope. This is C02's subject; it is repeated here because the seeded change C03-d sits in
/// Skewness::merge / Kurtosis::merge and only shows for equal means.
pub struct EqualMeanShards;
impl Check for EqualMeanShards {
    type Case = Xs;
    fn name(&self) -> &'static str {
        "merged_equal_mean_shards"
    }
    fn fp(&self, c: &Xs, h: &mut Fp) {
        h.fs(&c.xs);
    }
    fn test(&self, c: &Xs, o: &mut Obs) -> TestResult {
        use crate::types::Uni;
        use average::Merge;
        let n = c.xs.len();
        if n < 4 {
            o.discarded = Some("fewer than four observations");
            return Ok(());
        }
        let (l, r) = c.xs.split_at(n / 2);
        let (ml, mr): (average::Mean, average::Mean) = (l.iter().collect(), r.iter().collect());
        if ml.mean().to_bits() != mr.mean().to_bits() {
            o.discarded = Some("halves do not have bit-identical means");
            return Ok(());
        }
        let ex = match c01_gate(&c.xs, 4, 2, o) {
            Some(e) => e,
            None => return Ok(()),
        };
        o.nontrivial = true;
        let mut s: Skewness = l.iter().collect();
        s.merge(&r.iter().collect());
        s.judge(&ex, o)?;
        let mut k: Kurtosis = l.iter().collect();
        k.merge(&r.iter().collect());
        k.judge(&ex, o)?;
        // and continued by adds after the merge
        let mut k2 = k.clone();
        let mut all = c.xs.clone();
        for &x in l.iter().take(3) {
            Uni::add(&mut k2, x);
            all.push(x);
        }
        let ex2 = exact_moments(&all, 4);
        if !ex2.zero_spread {
            k2.judge(&ex2, o)?;
        }
        Ok(())
    }
}

pub fn run(cx: &Ctx) {
    cx.set_rule("cases = data sets with n >= 2 and non-zero spread, shapes weighted towards skewed (exponential, log-normal, negative heavy tail), two-point, bimodal, single-outlier and arithmetic progressions, offsets up to 1e9 spreads, fed one observation at a time to Skewness and Kurtosis; skewness(), kurtosis() and the re-exported mean/variance accessors judged against exact m3/m2^1.5, m4/m2^2-3 with the DESIGN.md 4.1 envelopes. Non-trivial = |exact skewness| > 0.1 (Kurtosis: or |excess kurtosis| > 0.1); distinct = hash of the sequence bits");
    cx.assume("exact oracle and envelopes as in C01");
    let w = cx.workers;
    let cases = cx.by(3000, 40000);
    let big = cx.by(6000, 30000);
    let strat = move || gen::dataset_shapes(&SHAPES, 2, 3000, big, 9.0).prop_map(|xs| Xs { xs });
    cx.label("generated");
    cx.run_pt(&skew_check(), cases, w, strat, "n 2..=30000 (quick 6000), offsets <= 1e9 spreads");
    cx.run_pt(&kurt_check(), cases, w, strat, "n 2..=30000 (quick 6000), offsets <= 1e9 spreads");
    cx.label("fixed");
    cx.run_list(&skew_check(), fixed_cases(), "fixed two-point/outlier/progression family");
    cx.run_list(&kurt_check(), fixed_cases(), "fixed two-point/outlier/progression family");
    cx.label("equal-mean-shards");
    {
        // all sequences of length 4, 6, 8 over {0, 1, 3} (x 2 placements); only those whose halves have equal means are judged
        let alpha = [0.0, 1.0, 3.0];
        let mut cases = Vec::new();
        for len in [4usize, 6, 8] {
            for i in 0..3u64.pow(len as u32) {
                let xs = super::c05::alphabet_stream(&alpha, len, i);
                cases.push(Xs { xs: xs.iter().map(|x| 2.5 * x - 1.0).collect() });
                cases.push(Xs { xs });
            }
        }
        let total = cases.len() as u64;
        cx.run_enum(&EqualMeanShards, total, |i| Some(cases[i as usize].clone()), "all sequences of length 4, 6, 8 over a 3-value alphabet (two affine images), halves merged when their means are bit-identical");
    }
    if cx.thorough() {
        cx.label("search");
        cx.run_climb(&skew_check(), climb_starts(cx, 256, 0xC03), 6000, mutate_xs, "hill-climb 256 x 6000");
        cx.run_climb(&kurt_check(), climb_starts(cx, 256, 0xC03B), 6000, mutate_xs, "hill-climb 256 x 6000");
    }
    // sign classes (measured on the generated data)
}

pub fn replay(check: &str, case: &serde_json::Value) -> Option<Result<(), String>> {
    match check {
        "skewness_stream" => Some(replay_case(&skew_check(), case)),
        "kurtosis_stream" => Some(replay_case(&kurt_check(), case)),
        "merged_equal_mean_shards" => Some(replay_case(&EqualMeanShards, case)),
        _ => None,
    }
}
