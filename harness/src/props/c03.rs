//! C03 — Skewness and Kurtosis equal the exact standardized moments.
use super::c01::{climb_starts, mutate_xs};
use super::common::*;
use crate::engine::*;
use crate::gen;
use crate::oracle::*;
use average::{Kurtosis, Skewness};
use proptest::prelude::*;
use std::marker::PhantomData;

fn rule_s(ex: &Exact) -> bool {
    !ex.zero_spread && ex.standardized(3).to_f64().abs() > 0.1
}
fn rule_k(ex: &Exact) -> bool {
    !ex.zero_spread && (ex.standardized(3).to_f64().abs() > 0.1 || (ex.standardized(4).to_f64() - 3.0).abs() > 0.1)
}
pub fn skew_check() -> Stream<Skewness> {
    Stream { name: "skewness_stream", min_n: 2, rule: rule_s, _p: PhantomData }
}
pub fn kurt_check() -> Stream<Kurtosis> {
    Stream { name: "kurtosis_stream", min_n: 2, rule: rule_k, _p: PhantomData }
}

/// hand-picked data: two-point, single outlier, arithmetic progressions, with offsets
pub fn fixed_cases() -> Vec<Xs> {
    let mut v = Vec::new();
    for &off in &[0.0, 1e3, 1e6, 1e9] {
        for &sc in &[1.0, 1e-12, 1e12] {
            for &n in &[2usize, 3, 5, 17, 200] {
                // two-point, very asymmetric
                let mut xs: Vec<f64> = (0..n).map(|i| sc * (off + if i == 0 { 1.0 } else { 0.0 })).collect();
                v.push(Xs { xs: xs.clone() });
                xs.reverse();
                v.push(Xs { xs });
                // arithmetic progression
                v.push(Xs { xs: (0..n).map(|i| sc * (off + i as f64)).collect() });
                // negative outlier
                v.push(Xs { xs: (0..n).map(|i| sc * (off + if i == n / 2 { -50.0 } else { (i % 3) as f64 * 0.01 })).collect() });
            }
        }
    }
    v
}

// shapes weighted towards skewed (both signs), bimodal, outlier, two-point, progressions
static SHAPES: [usize; 16] = [2, 3, 3, 10, 10, 4, 4, 5, 6, 6, 7, 11, 1, 8, 13, 13];

pub fn run(cx: &Ctx) {
    cx.set_rule("cases = data sets with n >= 2 and non-zero spread, shapes weighted towards skewed (exponential, log-normal, negative heavy tail), two-point, bimodal, single-outlier and arithmetic progressions, offsets up to 1e9 spreads, fed one observation at a time to Skewness and Kurtosis; skewness(), kurtosis() and the re-exported mean/variance accessors judged against exact m3/m2^1.5, m4/m2^2-3 with the DESIGN.md 4.1 envelopes. Non-trivial = |exact skewness| > 0.1 (Kurtosis: or |excess kurtosis| > 0.1); distinct = hash of the sequence bits");
    cx.assume("exact oracle and envelopes as in C01");
    let w = cx.workers;
    let cases = cx.by(3000, 40000);
    let big = cx.by(6000, 30000);
    let strat = move || gen::dataset_shapes(&SHAPES, 2, 3000, big, 9.0).prop_map(|xs| Xs { xs });
    cx.label("generated");
    cx.run_pt(&skew_check(), cases, w, strat, "n 2..=30000 (quick 6000), offsets <= 1e9 spreads");
    cx.run_pt(&kurt_check(), cases, w, strat, "n 2..=30000 (quick 6000), offsets <= 1e9 spreads");
    cx.label("fixed");
    cx.run_list(&skew_check(), fixed_cases(), "fixed two-point/outlier/progression family");
    cx.run_list(&kurt_check(), fixed_cases(), "fixed two-point/outlier/progression family");
    if cx.thorough() {
        cx.label("search");
        cx.run_climb(&skew_check(), climb_starts(cx, 256, 0xC03), 6000, mutate_xs, "hill-climb 256 x 6000");
        cx.run_climb(&kurt_check(), climb_starts(cx, 256, 0xC03B), 6000, mutate_xs, "hill-climb 256 x 6000");
    }
    // sign classes (measured on the generated data)
}

pub fn replay(check: &str, case: &serde_json::Value) -> Option<Result<(), String>> {
    match check {
        "skewness_stream" => Some(replay_case(&skew_check(), case)),
        "kurtosis_stream" => Some(replay_case(&kurt_check(), case)),
        _ => None,
    }
}
