//! The two histogram implementations behind one trait, so that C06/C12/C13 are
//! written once: the macro-generated histograms (define_histogram!, LEN in
//! {1,2,3,4,10,100}) and — when built with `cargo +nightly --features nightly` —
//! the const-generic `average::histogram_const::Histogram<LEN>`.
use average::Merge;

#[derive(Clone, Copy, Debug, PartialEq, Eq)]
pub enum RangeErr {
    NotEnoughRanges,
    NotSorted,
    NaN,
}

pub trait Hist: Clone + Sized + std::fmt::Debug {
    const LEN: usize;
    const IMPL: &'static str;
    fn from_ranges(v: &[f64]) -> Result<Self, RangeErr>;
    fn with_const_width(s: f64, e: f64) -> Self;
    fn find(&self, x: f64) -> Result<usize, ()>;
    fn add(&mut self, x: f64) -> Result<(), ()>;
    fn bins(&self) -> Vec<u64>;
    fn ranges(&self) -> Vec<f64>;
    fn range_min(&self) -> f64;
    fn range_max(&self) -> f64;
    fn reset(&mut self);
    fn merge(&mut self, o: &Self);
    fn add_assign(&mut self, o: &Self);
    fn mul_assign(&mut self, k: u64);
    fn items(&self) -> Vec<((f64, f64), u64)>;
    fn items_via_iter_method(&self) -> Vec<((f64, f64), u64)>;
    fn widths(&self) -> Vec<f64>;
    fn centers(&self) -> Vec<f64>;
    fn normalized_bins(&self) -> Vec<f64>;
    fn variances(&self) -> Vec<f64>;
    fn variance(&self, i: usize) -> f64;
    /// The Iterator protocol of iter(), into_iter() and the four view iterators: nth, skip, step_by,
    /// count, last and size_hint must agree with plain next()-by-next() iteration.
    fn iter_protocol(&self) -> Result<(), String>;
    /// serde_json round trip (macro histograms only)
    fn to_json(&self) -> Option<String>;
    fn from_json(s: &str) -> Option<Result<Self, String>>;
}

/// Every public read-out of a histogram as (label, value) pairs: edges, counts, range_min/max, the
/// items of iteration and all derived views — `variance(i)` separately from `variances()`, since an
/// implementation may compute them from different (possibly cached) state.
pub fn full_snapshot<H: Hist>(h: &H) -> Vec<(String, f64)> {
    let mut v: Vec<(String, f64)> = Vec::new();
    for (i, r) in h.ranges().iter().enumerate() {
        v.push((format!("range[{}]", i), *r));
    }
    let bins = h.bins();
    for (i, b) in bins.iter().enumerate() {
        v.push((format!("bin[{}]", i), *b as f64));
    }
    v.push(("range_min".into(), h.range_min()));
    v.push(("range_max".into(), h.range_max()));
    for (i, ((lo, hi), c)) in h.items().into_iter().enumerate() {
        v.push((format!("item[{}].lower", i), lo));
        v.push((format!("item[{}].upper", i), hi));
        v.push((format!("item[{}].count", i), c as f64));
    }
    for (i, x) in h.widths().iter().enumerate() {
        v.push((format!("width[{}]", i), *x));
    }
    for (i, x) in h.centers().iter().enumerate() {
        v.push((format!("center[{}]", i), *x));
    }
    for (i, x) in h.normalized_bins().iter().enumerate() {
        v.push((format!("normalized[{}]", i), *x));
    }
    for (i, x) in h.variances().iter().enumerate() {
        v.push((format!("variances()[{}]", i), *x));
    }
    for i in 0..bins.len() {
        v.push((format!("variance({})", i), h.variance(i)));
    }
    v
}


/// `mk()` produces a fresh iterator; every adaptor result is compared (after `conv`, which maps an item
/// to bit patterns so that NaN compares equal to itself) with what sequential `next()` calls yield.
/// The adaptors are applied to the RAW iterator, so that an overridden `nth` / `size_hint` / `count` /
/// `last` of the implementation is the code that runs.
pub fn probe_iter<T, U: PartialEq + std::fmt::Debug, I: Iterator<Item = T>>(what: &str, mk: impl Fn() -> I, conv: impl Fn(T) -> U) -> Result<(), String> {
    let mut all: Vec<U> = Vec::new();
    let mut it = mk();
    while let Some(x) = it.next() {
        all.push(conv(x));
        if all.len() > 100_000 {
            return Err(format!("{}: iterator does not terminate", what));
        }
    }
    if it.next().is_some() {
        return Err(format!("{}: yields an item again after returning None", what));
    }
    let n = all.len();
    let (lo, hi) = mk().size_hint();
    if lo > n || hi.map_or(false, |h| h < n) {
        return Err(format!("{}: size_hint() = ({}, {:?}) but the iterator yields {} items", what, lo, hi, n));
    }
    for k in 0..=n + 1 {
        let got = mk().nth(k).map(&conv);
        if got.as_ref() != all.get(k) {
            return Err(format!("{}: nth({}) = {:?} but sequential iteration gives {:?}", what, k, got, all.get(k)));
        }
        let sk: Vec<U> = mk().skip(k).map(&conv).collect();
        if sk[..] != all[k.min(n)..] {
            return Err(format!("{}: skip({}) yields {:?}, sequential iteration gives {:?}", what, k, sk, &all[k.min(n)..]));
        }
    }
    // nth in the middle of an iteration (state left behind by nth)
    if n >= 2 {
        let mut it = mk();
        let _ = it.nth(0);
        let rest: Vec<U> = it.map(&conv).collect();
        if rest[..] != all[1..] {
            return Err(format!("{}: after nth(0) the rest is {:?}, expected {:?}", what, rest, &all[1..]));
        }
    }
    for step in [2usize, 3] {
        let st: Vec<U> = mk().step_by(step).map(&conv).collect();
        let want: Vec<&U> = all.iter().step_by(step).collect();
        if st.iter().collect::<Vec<_>>() != want {
            return Err(format!("{}: step_by({}) yields {:?}, expected {:?}", what, step, st, want));
        }
    }
    let c = mk().count();
    if c != n {
        return Err(format!("{}: count() = {} but the iterator yields {} items", what, c, n));
    }
    let l = mk().last().map(&conv);
    if l.as_ref() != all.last() {
        return Err(format!("{}: last() = {:?}, expected {:?}", what, l, all.last()));
    }
    Ok(())
}

pub fn item_bits(x: ((f64, f64), u64)) -> [u64; 3] {
    [(x.0).0.to_bits(), (x.0).1.to_bits(), x.1]
}

macro_rules! impl_macro_hist {
    ($m:ident, $len:expr) => {
        impl Hist for crate::$m::Histogram {
            const LEN: usize = $len;
            const IMPL: &'static str = "macro";
            fn from_ranges(v: &[f64]) -> Result<Self, RangeErr> {
                crate::$m::Histogram::from_ranges(v.iter().cloned()).map_err(|e| match e {
                    average::InvalidRangeError::NotEnoughRanges => RangeErr::NotEnoughRanges,
                    average::InvalidRangeError::NotSorted => RangeErr::NotSorted,
                    average::InvalidRangeError::NaN => RangeErr::NaN,
                })
            }
            fn with_const_width(s: f64, e: f64) -> Self {
                crate::$m::Histogram::with_const_width(s, e)
            }
            fn find(&self, x: f64) -> Result<usize, ()> {
                crate::$m::Histogram::find(self, x).map_err(|_| ())
            }
            fn add(&mut self, x: f64) -> Result<(), ()> {
                crate::$m::Histogram::add(self, x).map_err(|_| ())
            }
            fn bins(&self) -> Vec<u64> {
                average::Histogram::bins(self).to_vec()
            }
            fn ranges(&self) -> Vec<f64> {
                crate::$m::Histogram::ranges(self).to_vec()
            }
            fn range_min(&self) -> f64 {
                crate::$m::Histogram::range_min(self)
            }
            fn range_max(&self) -> f64 {
                crate::$m::Histogram::range_max(self)
            }
            fn reset(&mut self) {
                crate::$m::Histogram::reset(self)
            }
            fn merge(&mut self, o: &Self) {
                Merge::merge(self, o)
            }
            fn add_assign(&mut self, o: &Self) {
                *self += o;
            }
            fn mul_assign(&mut self, k: u64) {
                *self *= k;
            }
            fn items(&self) -> Vec<((f64, f64), u64)> {
                self.into_iter().collect()
            }
            fn items_via_iter_method(&self) -> Vec<((f64, f64), u64)> {
                self.iter().collect()
            }
            fn iter_protocol(&self) -> Result<(), String> {
                crate::hist::probe_iter("iter()", || self.iter(), crate::hist::item_bits)?;
                crate::hist::probe_iter("into_iter()", || self.into_iter(), crate::hist::item_bits)?;
                crate::hist::probe_iter("widths()", || average::Histogram::widths(self), f64::to_bits)?;
                crate::hist::probe_iter("centers()", || average::Histogram::centers(self), f64::to_bits)?;
                crate::hist::probe_iter("normalized_bins()", || average::Histogram::normalized_bins(self), f64::to_bits)?;
                crate::hist::probe_iter("variances()", || average::Histogram::variances(self), f64::to_bits)
            }
            fn widths(&self) -> Vec<f64> {
                average::Histogram::widths(self).collect()
            }
            fn centers(&self) -> Vec<f64> {
                average::Histogram::centers(self).collect()
            }
            fn normalized_bins(&self) -> Vec<f64> {
                average::Histogram::normalized_bins(self).collect()
            }
            fn variances(&self) -> Vec<f64> {
                average::Histogram::variances(self).collect()
            }
            fn variance(&self, i: usize) -> f64 {
                average::Histogram::variance(self, i)
            }
            fn to_json(&self) -> Option<String> {
                serde_json::to_string(self).ok()
            }
            fn from_json(s: &str) -> Option<Result<Self, String>> {
                Some(serde_json::from_str(s).map_err(|e| e.to_string()))
            }
        }
    };
}
impl_macro_hist!(h1, 1);
impl_macro_hist!(h2, 2);
impl_macro_hist!(h3, 3);
impl_macro_hist!(h4, 4);
impl_macro_hist!(h10, 10);
impl_macro_hist!(h100, 100);

#[cfg(feature = "nightly")]
mod constgen {
    use super::{Hist, RangeErr};
    use average::histogram_const::{Histogram, InvalidRangeError};
    use average::Merge;
    macro_rules! impl_const_hist {
        ($len:expr) => {
            impl Hist for Histogram<$len> {
                const LEN: usize = $len;
                const IMPL: &'static str = "const";
                fn from_ranges(v: &[f64]) -> Result<Self, RangeErr> {
                    Histogram::<$len>::from_ranges(v.iter().cloned()).map_err(|e| match e {
                        InvalidRangeError::NotEnoughRanges => RangeErr::NotEnoughRanges,
                        InvalidRangeError::NotSorted => RangeErr::NotSorted,
                        InvalidRangeError::NaN => RangeErr::NaN,
                    })
                }
                fn with_const_width(s: f64, e: f64) -> Self {
                    Histogram::<$len>::with_const_width(s, e)
                }
                fn find(&self, x: f64) -> Result<usize, ()> {
                    Histogram::<$len>::find(self, x).map_err(|_| ())
                }
                fn add(&mut self, x: f64) -> Result<(), ()> {
                    Histogram::<$len>::add(self, x).map_err(|_| ())
                }
                fn bins(&self) -> Vec<u64> {
                    Histogram::<$len>::bins(self).to_vec()
                }
                fn ranges(&self) -> Vec<f64> {
                    Histogram::<$len>::ranges(self).to_vec()
                }
                fn range_min(&self) -> f64 {
                    Histogram::<$len>::range_min(self)
                }
                fn range_max(&self) -> f64 {
                    Histogram::<$len>::range_max(self)
                }
                fn reset(&mut self) {
                    Histogram::<$len>::reset(self)
                }
                fn merge(&mut self, o: &Self) {
                    Merge::merge(self, o)
                }
                fn add_assign(&mut self, o: &Self) {
                    *self += o;
                }
                fn mul_assign(&mut self, k: u64) {
                    *self *= k;
                }
                fn items(&self) -> Vec<((f64, f64), u64)> {
                    self.into_iter().collect()
                }
                fn items_via_iter_method(&self) -> Vec<((f64, f64), u64)> {
                    self.iter().collect()
                }
                fn iter_protocol(&self) -> Result<(), String> {
                    crate::hist::probe_iter("iter()", || self.iter(), crate::hist::item_bits)?;
                    crate::hist::probe_iter("into_iter()", || self.into_iter(), crate::hist::item_bits)?;
                    crate::hist::probe_iter("widths()", || Histogram::<$len>::widths(self), f64::to_bits)?;
                    crate::hist::probe_iter("centers()", || Histogram::<$len>::centers(self), f64::to_bits)?;
                    crate::hist::probe_iter("normalized_bins()", || Histogram::<$len>::normalized_bins(self), f64::to_bits)?;
                    crate::hist::probe_iter("variances()", || Histogram::<$len>::variances(self), f64::to_bits)
                }
                fn widths(&self) -> Vec<f64> {
                    Histogram::<$len>::widths(self).collect()
                }
                fn centers(&self) -> Vec<f64> {
                    Histogram::<$len>::centers(self).collect()
                }
                fn normalized_bins(&self) -> Vec<f64> {
                    Histogram::<$len>::normalized_bins(self).collect()
                }
                fn variances(&self) -> Vec<f64> {
                    Histogram::<$len>::variances(self).collect()
                }
                fn variance(&self, i: usize) -> f64 {
                    Histogram::<$len>::variance(self, i)
                }
                fn to_json(&self) -> Option<String> {
                    None
                }
                fn from_json(_: &str) -> Option<Result<Self, String>> {
                    None
                }
            }
        };
    }
    impl_const_hist!(1);
    impl_const_hist!(2);
    impl_const_hist!(3);
    impl_const_hist!(4);
    impl_const_hist!(10);
    impl_const_hist!(100);
}

pub const LENS: [usize; 6] = [1, 2, 3, 4, 10, 100];

#[cfg(feature = "nightly")]
pub const IMPLS: &[&str] = &["macro", "const"];
#[cfg(not(feature = "nightly"))]
pub const IMPLS: &[&str] = &["macro"];

/// dispatch!(imp, len, generic_fn, args...) -> Option<R>; None = this
/// implementation/LEN is not available in this build.
#[macro_export]
macro_rules! hist_dispatch {
    ($imp:expr, $len:expr, $f:ident $(, $a:expr)*) => {{
        match ($imp, $len) {
            ("macro", 1) => Some($f::<$crate::h1::Histogram>($($a),*)),
            ("macro", 2) => Some($f::<$crate::h2::Histogram>($($a),*)),
            ("macro", 3) => Some($f::<$crate::h3::Histogram>($($a),*)),
            ("macro", 4) => Some($f::<$crate::h4::Histogram>($($a),*)),
            ("macro", 10) => Some($f::<$crate::h10::Histogram>($($a),*)),
            ("macro", 100) => Some($f::<$crate::h100::Histogram>($($a),*)),
            #[cfg(feature = "nightly")]
            ("const", 1) => Some($f::<average::histogram_const::Histogram<1>>($($a),*)),
            #[cfg(feature = "nightly")]
            ("const", 2) => Some($f::<average::histogram_const::Histogram<2>>($($a),*)),
            #[cfg(feature = "nightly")]
            ("const", 3) => Some($f::<average::histogram_const::Histogram<3>>($($a),*)),
            #[cfg(feature = "nightly")]
            ("const", 4) => Some($f::<average::histogram_const::Histogram<4>>($($a),*)),
            #[cfg(feature = "nightly")]
            ("const", 10) => Some($f::<average::histogram_const::Histogram<10>>($($a),*)),
            #[cfg(feature = "nightly")]
            ("const", 100) => Some($f::<average::histogram_const::Histogram<100>>($($a),*)),
            _ => None,
        }
    }};
}

pub fn next_up(x: f64) -> f64 {
    if x.is_nan() || x == f64::INFINITY {
        return x;
    }
    if x == 0.0 {
        return f64::from_bits(1);
    }
    let b = x.to_bits();
    if x > 0.0 {
        f64::from_bits(b + 1)
    } else {
        f64::from_bits(b - 1)
    }
}
pub fn next_down(x: f64) -> f64 {
    -next_up(-x)
}

/// Linear-scan model: the unique bin i with lower_i <= x < upper_i.
pub fn model_find(edges: &[f64], x: f64) -> Option<usize> {
    let mut r = None;
    for i in 0..edges.len().saturating_sub(1) {
        if edges[i] <= x && x < edges[i + 1] {
            debug_assert!(r.is_none());
            r = Some(i);
        }
    }
    r
}
