//! Independent transcription of the P-square algorithm (Jain & Chlamtac, CACM
//! 28(10), 1985), 1-indexed as in the paper, with ambiguity detection: the
//! reference flags a stream as soon as one of its own decisions is within
//! rounding of flipping, so that a correct implementation that associates the
//! arithmetic differently can never be blamed for the flip.
#[derive(Clone, Debug)]
pub struct P2 {
    pub p: f64,
    pub cnt: usize,
    init: Vec<f64>,
    /// marker heights q[1..=5]
    pub q: [f64; 6],
    /// marker positions n[1..=5]
    pub n: [i64; 6],
    /// desired positions n'[1..=5]
    pub np: [f64; 6],
    /// increments dn'[1..=5]
    pub dn: [f64; 6],
    pub ambiguous: bool,
    lo: f64,
    hi: f64,
    // event counters (after initialisation)
    pub new_min: u32,
    pub new_max: u32,
    pub ties: u32,
    pub parabolic: u32,
    pub linear: u32,
}

impl P2 {
    pub fn new(p: f64) -> P2 {
        P2 { p, cnt: 0, init: vec![], q: [0.; 6], n: [0; 6], np: [0.; 6], dn: [0.; 6], ambiguous: false, lo: f64::INFINITY, hi: f64::NEG_INFINITY, new_min: 0, new_max: 0, ties: 0, parabolic: 0, linear: 0 }
    }
    pub fn range(&self) -> f64 {
        self.hi - self.lo
    }
    pub fn scale(&self) -> f64 {
        self.hi.abs().max(self.lo.abs())
    }
    /// decisions closer than this are "within rounding"
    pub fn eps(&self) -> f64 {
        1e-9 * self.range().max(self.scale() * 1e-3)
    }
    pub fn add(&mut self, x: f64) {
        self.cnt += 1;
        self.lo = self.lo.min(x);
        self.hi = self.hi.max(x);
        if self.cnt <= 5 {
            self.init.push(x);
            if self.cnt == 5 {
                // A. initialisation: sort the first five observations
                self.init.sort_by(|a, b| a.partial_cmp(b).unwrap());
                for i in 1..=5 {
                    self.q[i] = self.init[i - 1];
                    self.n[i] = i as i64;
                }
                let p = self.p;
                self.np = [0., 1., 1. + 2. * p, 1. + 4. * p, 3. + 2. * p, 5.];
                self.dn = [0., 0., p / 2., p, (1. + p) / 2., 1.];
            }
            return;
        }
        let eps = self.eps();
        // B.1 find cell k, adjust extreme values
        let k;
        if x < self.q[1] {
            self.q[1] = x;
            k = 1;
            self.new_min += 1;
        } else if x >= self.q[5] {
            if x > self.q[5] {
                self.q[5] = x;
                self.new_max += 1;
            }
            k = 4;
        } else {
            let mut kk = 4;
            for i in 1..=4 {
                if self.q[i] <= x && x < self.q[i + 1] {
                    kk = i;
                    break;
                }
            }
            k = kk;
        }
        for i in 1..=5 {
            if x == self.q[i] {
                self.ties += 1;
                break;
            }
        }
        // near-tie against *computed* interior markers
        for i in 2..=4 {
            if x != self.q[i] && (x - self.q[i]).abs() <= eps {
                self.ambiguous = true;
            }
        }
        // B.2 increment positions of markers k+1..5 and all desired positions
        for i in (k + 1)..=5 {
            self.n[i] += 1;
        }
        for i in 1..=5 {
            self.np[i] += self.dn[i];
        }
        // B.3 adjust heights of markers 2..4 if necessary
        for i in 2..=4 {
            let d = self.np[i] - self.n[i] as f64;
            if (d.abs() - 1.0).abs() < 1e-9 && d.abs() != 1.0 {
                self.ambiguous = true;
            }
            if (d >= 1. && self.n[i + 1] - self.n[i] > 1) || (d <= -1. && self.n[i - 1] - self.n[i] < -1) {
                let s: i64 = if d >= 0. { 1 } else { -1 };
                let sf = s as f64;
                let (qm, q0, qp) = (self.q[i - 1], self.q[i], self.q[i + 1]);
                let (nm, n0, npp) = (self.n[i - 1] as f64, self.n[i] as f64, self.n[i + 1] as f64);
                // P^2 formula
                let qn = q0 + sf / (npp - nm) * ((n0 - nm + sf) * (qp - q0) / (npp - n0) + (npp - n0 - sf) * (q0 - qm) / (n0 - nm));
                if ((qn - qm).abs() <= eps && qn != qm) || ((qn - qp).abs() <= eps && qn != qp) {
                    self.ambiguous = true;
                }
                if qm < qn && qn < qp {
                    self.q[i] = qn;
                    self.parabolic += 1;
                } else {
                    // linear formula
                    let j = (i as i64 + s) as usize;
                    self.q[i] = q0 + sf * (self.q[j] - q0) / (self.n[j] as f64 - n0);
                    self.linear += 1;
                }
                self.n[i] += s;
            }
        }
    }
    pub fn quantile(&self) -> f64 {
        self.q[3]
    }
}

/// Correctly rounded midpoint of two finite numbers (no overflow, exact halving
/// of the sum also in the subnormal range).
pub fn midpoint(a: f64, b: f64) -> f64 {
    if a.abs() <= 0.5 * f64::MAX && b.abs() <= 0.5 * f64::MAX {
        (a + b) / 2.0
    } else {
        a / 2.0 + b / 2.0
    }
}

/// Exact p-quantile convention of C07 for fewer than five observations.
/// Returns the set of acceptable values.
pub fn small_quantile(sorted: &[f64], p: f64) -> Vec<f64> {
    use crate::exact::Big;
    let n = sorted.len();
    let h = sorted;
    let (m, e) = Big::decompose(p);
    // t = n*p = tm * 2^e exactly
    let tm = (n as i128) * (m as i128);
    let whole = if e >= 0 {
        true
    } else if -e >= 120 {
        tm == 0
    } else {
        tm % (1i128 << (-e)) == 0
    };
    let t = n as f64 * p;
    let mut ok: Vec<f64> = vec![];
    if whole {
        let k = if e >= 0 {
            (tm << e) as usize
        } else if -e >= 120 {
            0
        } else {
            (tm >> (-e)) as usize
        };
        if k == 0 {
            ok.push(h[0]);
        } else if k < n {
            ok.push(midpoint(h[k - 1], h[k]));
        } else {
            ok.push(h[n - 1]);
        }
    } else if (t - t.round()).abs() <= 4.0 * f64::EPSILON * t.max(1.0) {
        // n*p is within rounding of a whole number k: either adjacent convention
        let k = t.round() as i64;
        for j in [k - 1, k] {
            let j = j.clamp(0, n as i64 - 1) as usize;
            ok.push(h[j]);
        }
        if k >= 1 && (k as usize) < n {
            ok.push(midpoint(h[k as usize - 1], h[k as usize]));
        }
    } else {
        let j = (t.ceil() as i64 - 1).clamp(0, n as i64 - 1) as usize;
        ok.push(h[j]);
    }
    ok
}
