#![allow(dead_code, unused_imports)]
#![cfg_attr(feature = "nightly", feature(generic_const_exprs))]
#![cfg_attr(feature = "nightly", allow(incomplete_features))]
//! Library part of the harness (also used by the libFuzzer targets in /verif/fuzz).
pub mod engine;
pub mod est;
pub mod exact;
pub mod fuzzdec;
pub mod gen;
pub mod hist;
pub mod oracle;
pub mod p2ref;
pub mod props;
pub mod types;


average::define_histogram!(h1, 1);
average::define_histogram!(h2, 2);
average::define_histogram!(h3, 3);
average::define_histogram!(h4, 4);
average::define_histogram!(h10, 10);
average::define_histogram!(h100, 100);

