//! The engine shared by all property checks: proptest-driven generated search,
//! bounded-exhaustive enumeration, evidence accounting, replay files and the
//! known-findings list.
use proptest::strategy::Strategy;
use proptest::test_runner::{Config, RngSeed, TestCaseError, TestError, TestRunner};
use serde::de::DeserializeOwned;
use serde::Serialize;
use serde_json::{json, Value};
use std::collections::{BTreeMap, HashSet};
use std::hash::Hasher;
use std::panic::{catch_unwind, AssertUnwindSafe};
use std::path::PathBuf;
use std::sync::atomic::{AtomicBool, Ordering};
use std::sync::Mutex;
use std::time::Instant;

#[derive(Clone, Copy, PartialEq, Eq, Debug)]
pub enum Tier {
    Quick,
    Thorough,
}

/// A property failure. `sig` identifies the *kind* of failure (used to match
/// entries of KNOWN_FINDINGS.txt); `msg` is the human-readable detail.
#[derive(Clone, Debug)]
pub struct Fail {
    pub sig: String,
    pub msg: String,
}
pub type TestResult = Result<(), Fail>;

pub fn fail<T>(sig: &str, msg: String) -> Result<T, Fail> {
    Err(Fail { sig: sig.to_string(), msg })
}

/// Deterministic fingerprint of a case (distinct-case counting, replay names).
pub struct Fp(std::collections::hash_map::DefaultHasher);
impl Fp {
    pub fn new() -> Fp {
        #[allow(deprecated)]
        Fp(std::collections::hash_map::DefaultHasher::new())
    }
    pub fn u(&mut self, v: u64) -> &mut Self {
        self.0.write_u64(v);
        self
    }
    pub fn f(&mut self, v: f64) -> &mut Self {
        self.0.write_u64(v.to_bits());
        self
    }
    pub fn fs(&mut self, v: &[f64]) -> &mut Self {
        self.0.write_u64(v.len() as u64);
        for x in v {
            self.0.write_u64(x.to_bits());
        }
        self
    }
    pub fn us(&mut self, v: &[usize]) -> &mut Self {
        self.0.write_u64(v.len() as u64);
        for x in v {
            self.0.write_u64(*x as u64);
        }
        self
    }
    pub fn s(&mut self, v: &str) -> &mut Self {
        self.0.write(v.as_bytes());
        self.0.write_u8(0xff);
        self
    }
    pub fn finish(&self) -> u64 {
        self.0.finish()
    }
}

/// What one executed case reports back to the evidence accounting.
#[derive(Default)]
pub struct Obs {
    /// oracle comparisons made while executing this case
    pub evals: u64,
    /// non-trivial by the property's stated rule
    pub nontrivial: bool,
    /// class labels (generator distribution)
    pub classes: Vec<String>,
    /// the case fell outside the property's domain and was not judged
    pub discarded: Option<&'static str>,
    /// largest error/envelope ratio (or other hardness measure) seen
    pub hardness: f64,
    /// optional extra keys hashed into the distinct-case fingerprint
    pub extra_fp: u64,
}
impl Obs {
    pub fn class(&mut self, c: &str) {
        self.classes.push(c.to_string());
    }
    pub fn classf(&mut self, c: String) {
        self.classes.push(c);
    }
    pub fn hard(&mut self, r: f64) {
        if r > self.hardness {
            self.hardness = r;
        }
    }
}

/// One executable check: a case type, an oracle over it.
pub trait Check: Sync {
    type Case: Serialize + DeserializeOwned + std::fmt::Debug + Clone + Send;
    fn name(&self) -> &'static str;
    fn fp(&self, c: &Self::Case, h: &mut Fp);
    fn test(&self, c: &Self::Case, o: &mut Obs) -> TestResult;
    /// Extra, check-specific simplifications tried after proptest's own
    /// shrinking (each candidate must be strictly "smaller").
    fn simplify(&self, _c: &Self::Case) -> Vec<Self::Case> {
        Vec::new()
    }
}

#[derive(Default, Clone)]
pub struct SubStats {
    pub cases: u64,
    pub evals: u64,
    pub nontrivial_cases: u64,
    pub discarded: u64,
    pub exhaustive: bool,
    pub bounds: String,
    pub engine: String,
}

#[derive(Default)]
pub struct Evidence {
    pub cases: u64,
    pub evals: u64,
    pub distinct: HashSet<u64>,
    pub classes: BTreeMap<String, u64>,
    pub discarded: BTreeMap<String, u64>,
    pub samples: Vec<Value>,
    pub hardest: BTreeMap<String, (f64, Value)>,
    pub subs: BTreeMap<String, SubStats>,
    pub violations: Vec<Value>,
    pub known_hits: BTreeMap<String, u64>,
    pub notes: Vec<String>,
    pub extra: BTreeMap<String, Value>,
}

#[derive(Clone, Debug)]
pub struct Known {
    pub property: String,
    pub sig: String,
    pub text: String,
}

pub struct Ctx {
    pub id: &'static str,
    pub tier: Tier,
    pub seed: u64,
    pub root: PathBuf,
    pub ev: Mutex<Evidence>,
    pub known: Vec<Known>,
    pub start: Instant,
    pub workers: usize,
    pub failed: AtomicBool,
    pub rule: Mutex<String>,
    pub assumptions: Mutex<Vec<String>>,
    /// label appended to the check name in the per-sub-check statistics
    pub label: Mutex<String>,
    /// false: verdict only (cross-check builds must not overwrite the evidence file)
    pub write_evidence: bool,
}

fn splitmix(mut z: u64) -> u64 {
    z = z.wrapping_add(0x9E3779B97F4A7C15);
    z = (z ^ (z >> 30)).wrapping_mul(0xBF58476D1CE4E5B9);
    z = (z ^ (z >> 27)).wrapping_mul(0x94D049BB133111EB);
    z ^ (z >> 31)
}

thread_local! {
    static LAST_PANIC: std::cell::RefCell<Option<String>> = std::cell::RefCell::new(None);
}

/// Install a silent panic hook that remembers the last panic message of the
/// current thread (panics of the code under test are *data* for the checks).
pub fn install_panic_hook() {
    std::panic::set_hook(Box::new(|info| {
        let msg = if let Some(s) = info.payload().downcast_ref::<&str>() {
            s.to_string()
        } else if let Some(s) = info.payload().downcast_ref::<String>() {
            s.clone()
        } else {
            "<non-string panic>".to_string()
        };
        let loc = info.location().map(|l| format!("{}:{}", l.file(), l.line())).unwrap_or_default();
        LAST_PANIC.with(|p| *p.borrow_mut() = Some(format!("{} at {}", msg, loc)));
    }));
}
pub fn take_panic() -> String {
    LAST_PANIC.with(|p| p.borrow_mut().take()).unwrap_or_else(|| "<unknown panic>".into())
}

/// Run `f`, converting a panic into `Err(message)`.
pub fn no_panic<T>(f: impl FnOnce() -> T) -> Result<T, String> {
    match catch_unwind(AssertUnwindSafe(f)) {
        Ok(v) => Ok(v),
        Err(_) => Err(take_panic()),
    }
}

fn run_test<C: Check>(chk: &C, case: &C::Case, obs: &mut Obs) -> TestResult {
    match catch_unwind(AssertUnwindSafe(|| chk.test(case, obs))) {
        Ok(r) => r,
        Err(_) => Err(Fail { sig: "panic".into(), msg: format!("unexpected panic: {}", take_panic()) }),
    }
}

fn truncate_sample(v: Value) -> Value {
    let s = v.to_string();
    if s.len() <= 1500 {
        v
    } else {
        let head: String = s.chars().take(1200).collect();
        json!({"truncated": true, "json_len": s.len(), "head": head})
    }
}

#[derive(Default)]
struct Local {
    cases: u64,
    evals: u64,
    nontrivial_cases: u64,
    discarded_n: u64,
    distinct: HashSet<u64>,
    classes: BTreeMap<String, u64>,
    discarded: BTreeMap<String, u64>,
    samples: Vec<Value>,
    hardest: Option<(f64, Value)>,
    known_hits: BTreeMap<String, u64>,
}

impl Local {
    fn absorb<C: Check>(&mut self, chk: &C, case: &C::Case, obs: &Obs, want_samples: usize) {
        self.cases += 1;
        if let Some(r) = obs.discarded {
            *self.discarded.entry(r.to_string()).or_insert(0) += 1;
            self.discarded_n += 1;
            return;
        }
        self.evals += obs.evals;
        for c in &obs.classes {
            *self.classes.entry(c.clone()).or_insert(0) += 1;
        }
        if obs.nontrivial {
            self.nontrivial_cases += 1;
            let mut h = Fp::new();
            h.s(chk.name());
            chk.fp(case, &mut h);
            h.u(obs.extra_fp);
            let new = self.distinct.insert(h.finish());
            if new && self.samples.len() < want_samples {
                if let Ok(v) = serde_json::to_value(case) {
                    self.samples.push(truncate_sample(json!({"check": chk.name(), "case": v})));
                }
            }
        }
        if obs.hardness > 0.0 && self.hardest.as_ref().map_or(true, |h| obs.hardness > h.0) {
            if let Ok(v) = serde_json::to_value(case) {
                self.hardest = Some((obs.hardness, truncate_sample(v)));
            }
        }
    }
}

impl Ctx {
    pub fn new(id: &'static str, tier: Tier, seed: u64, root: PathBuf) -> Ctx {
        let known = load_known(&root);
        let workers = std::env::var("VERIF_WORKERS").ok().and_then(|s| s.parse().ok()).unwrap_or(16);
        Ctx {
            id,
            tier,
            seed,
            root,
            ev: Mutex::new(Evidence::default()),
            known,
            start: Instant::now(),
            workers,
            failed: AtomicBool::new(false),
            rule: Mutex::new(String::new()),
            assumptions: Mutex::new(Vec::new()),
            label: Mutex::new(String::new()),
            write_evidence: true,
        }
    }
    pub fn thorough(&self) -> bool {
        self.tier == Tier::Thorough
    }
    /// pick a size by tier
    pub fn by<T>(&self, quick: T, thorough: T) -> T {
        if self.thorough() {
            thorough
        } else {
            quick
        }
    }
    pub fn set_rule(&self, r: &str) {
        *self.rule.lock().unwrap() = r.to_string();
    }
    pub fn assume(&self, a: &str) {
        self.assumptions.lock().unwrap().push(a.to_string());
    }
    pub fn note(&self, n: String) {
        self.ev.lock().unwrap().notes.push(n);
    }
    pub fn extra(&self, k: &str, v: Value) {
        self.ev.lock().unwrap().extra.insert(k.to_string(), v);
    }
    fn sub_seed(&self, sub: &str, worker: usize) -> u64 {
        let mut h = Fp::new();
        h.s(self.id).s(sub).u(self.seed).u(worker as u64);
        splitmix(h.finish())
    }
    fn is_known(&self, f: &Fail) -> Option<&Known> {
        self.known.iter().find(|k| k.property == self.id && k.sig == f.sig)
    }

    /// Statistics of the following run_* calls are recorded under
    /// "<check name>/<label>" (empty label = just the check name).
    pub fn label(&self, l: &str) {
        *self.label.lock().unwrap() = l.to_string();
    }
    fn key(&self, sub: &str) -> String {
        let l = self.label.lock().unwrap();
        if l.is_empty() { sub.to_string() } else { format!("{}/{}", sub, l) }
    }
    fn merge(&self, check: &str, l: Local, exhaustive: bool, bounds: &str, engine: &str) {
        let subk = self.key(check);
        let sub = subk.as_str();
        let mut ev = self.ev.lock().unwrap();
        ev.cases += l.cases;
        ev.evals += l.evals;
        ev.distinct.extend(l.distinct.iter().copied());
        for (k, v) in l.classes {
            *ev.classes.entry(format!("{}/{}", sub, k)).or_insert(0) += v;
        }
        for (k, v) in l.discarded {
            *ev.discarded.entry(format!("{}/{}", sub, k)).or_insert(0) += v;
        }
        for (k, v) in l.known_hits {
            *ev.known_hits.entry(k).or_insert(0) += v;
        }
        let have = ev.samples.iter().filter(|s| s["check"] == check).count();
        for s in l.samples.into_iter().take(2usize.saturating_sub(have)) {
            ev.samples.push(s);
        }
        if let Some((r, v)) = l.hardest {
            let e = ev.hardest.entry(sub.to_string()).or_insert((0.0, Value::Null));
            if r > e.0 {
                *e = (r, v);
            }
        }
        let s = ev.subs.entry(sub.to_string()).or_default();
        s.cases += l.cases;
        s.evals += l.evals;
        s.nontrivial_cases += l.nontrivial_cases;
        s.discarded += l.discarded_n;
        s.exhaustive = exhaustive;
        s.bounds = bounds.to_string();
        s.engine = engine.to_string();
    }

    fn report_violation<C: Check>(&self, chk: &C, case: &C::Case, f: &Fail, how: &str) {
        // post-shrink simplification with check-specific candidates
        let mut cur = case.clone();
        let mut curf = f.clone();
        let mut budget = 2000;
        'outer: loop {
            for cand in chk.simplify(&cur) {
                if budget == 0 {
                    break 'outer;
                }
                budget -= 1;
                let mut o = Obs::default();
                if let Err(nf) = run_test(chk, &cand, &mut o) {
                    if o.discarded.is_none() && nf.sig == curf.sig {
                        cur = cand;
                        curf = nf;
                        continue 'outer;
                    }
                }
            }
            break;
        }
        let mut h = Fp::new();
        chk.fp(&cur, &mut h);
        let dir = self.root.join("replays").join(self.id);
        let _ = std::fs::create_dir_all(&dir);
        let path = dir.join(format!("{}-{:016x}.json", chk.name(), h.finish()));
        let doc = json!({
            "property": self.id,
            "check": chk.name(),
            "signature": curf.sig,
            "message": curf.msg,
            "found_by": how,
            "tier": format!("{:?}", self.tier),
            "seed": self.seed,
            "case": serde_json::to_value(&cur).unwrap_or(Value::Null),
        });
        let _ = std::fs::write(&path, serde_json::to_string_pretty(&doc).unwrap());
        println!("VIOLATION property={} replay={}", self.id, path.display());
        println!("  check={} signature={} :: {}", chk.name(), curf.sig, curf.msg);
        self.failed.store(true, Ordering::SeqCst);
        self.ev.lock().unwrap().violations.push(json!({
            "check": chk.name(), "signature": curf.sig, "message": curf.msg, "replay": path.display().to_string()
        }));
    }

    /// Generated search with proptest: `workers` independent runners, each with
    /// a seed derived from (VERIF_SEED, property, check, worker); failures are
    /// shrunk by proptest and written as replay files.
    pub fn run_pt<C, S>(&self, chk: &C, cases_per_worker: u32, workers: usize, strat: impl Fn() -> S + Sync, bounds: &str)
    where
        C: Check,
        S: Strategy<Value = C::Case>,
    {
        let stop = AtomicBool::new(false);
        let first_fail: Mutex<Option<(C::Case, Fail)>> = Mutex::new(None);
        std::thread::scope(|sc| {
            for w in 0..workers {
                let stop = &stop;
                let first_fail = &first_fail;
                let strat = &strat;
                sc.spawn(move || {
                    let local = std::cell::RefCell::new(Local::default());
                    let cfg = Config {
                        cases: cases_per_worker,
                        failure_persistence: None,
                        rng_seed: RngSeed::Fixed(self.sub_seed(chk.name(), w)),
                        max_shrink_iters: 2048,
                        max_global_rejects: 1 << 30,
                        max_local_rejects: 1 << 20,
                        ..Config::default()
                    };
                    let mut runner = TestRunner::new(cfg);
                    let failing = std::cell::Cell::new(false);
                    let res = runner.run(&strat(), |case| {
                        if stop.load(Ordering::Relaxed) && !failing.get() {
                            return Ok(());
                        }
                        let mut obs = Obs::default();
                        match run_test(chk, &case, &mut obs) {
                            Ok(()) => {
                                if !failing.get() {
                                    local.borrow_mut().absorb(chk, &case, &obs, 2);
                                }
                                Ok(())
                            }
                            Err(f) => {
                                if obs.discarded.is_some() {
                                    // a discarded case is never judged
                                    return Ok(());
                                }
                                if let Some(k) = self.is_known(&f) {
                                    *local.borrow_mut().known_hits.entry(k.sig.clone()).or_insert(0) += 1;
                                    return Ok(());
                                }
                                failing.set(true);
                                Err(TestCaseError::fail(f.msg))
                            }
                        }
                    });
                    match res {
                        Ok(()) => {}
                        Err(TestError::Fail(_, case)) => {
                            stop.store(true, Ordering::Relaxed);
                            let mut o = Obs::default();
                            let f = run_test(chk, &case, &mut o).err().unwrap_or(Fail {
                                sig: "flaky".into(),
                                msg: "shrunk case did not fail again (non-deterministic check?)".into(),
                            });
                            let mut ff = first_fail.lock().unwrap();
                            if ff.is_none() {
                                *ff = Some((case, f));
                            }
                        }
                        Err(TestError::Abort(r)) => {
                            self.note(format!("{}: proptest aborted: {}", chk.name(), r));
                        }
                    }
                    self.merge(chk.name(), local.into_inner(), false, bounds, "proptest");
                });
            }
        });
        if let Some((case, f)) = first_fail.into_inner().unwrap() {
            if f.sig == "flaky" {
                // never report something that does not reproduce
                self.note(format!("{}: a failure did not reproduce after shrinking; ignored", chk.name()));
                eprintln!("WARNING {}: non-reproducible failure ignored", chk.name());
            } else {
                self.report_violation(chk, &case, &f, "proptest (shrunk)");
            }
        }
    }

    /// Bounded-exhaustive enumeration of `total` cases, `make(i)` building the
    /// i-th one (None = skipped index). Runs on all workers; the failing case
    /// with the smallest index is reported.
    pub fn run_enum<C: Check>(&self, chk: &C, total: u64, make: impl Fn(u64) -> Option<C::Case> + Sync, bounds: &str) {
        let best: Mutex<Option<(u64, C::Case, Fail)>> = Mutex::new(None);
        let workers = self.workers.max(1) as u64;
        let chunk = 256u64;
        let next = std::sync::atomic::AtomicU64::new(0);
        std::thread::scope(|sc| {
            for _ in 0..workers {
                let best = &best;
                let next = &next;
                let make = &make;
                sc.spawn(move || {
                    let mut local = Local::default();
                    loop {
                        let lo = next.fetch_add(chunk, Ordering::Relaxed);
                        if lo >= total {
                            break;
                        }
                        if let Some(b) = best.lock().unwrap().as_ref() {
                            if b.0 < lo {
                                break;
                            }
                        }
                        for i in lo..(lo + chunk).min(total) {
                            let case = match make(i) {
                                Some(c) => c,
                                None => continue,
                            };
                            let mut obs = Obs::default();
                            match run_test(chk, &case, &mut obs) {
                                Ok(()) => local.absorb(chk, &case, &obs, 1),
                                Err(f) => {
                                    if obs.discarded.is_some() {
                                        continue;
                                    }
                                    if let Some(k) = self.is_known(&f) {
                                        *local.known_hits.entry(k.sig.clone()).or_insert(0) += 1;
                                        continue;
                                    }
                                    let mut b = best.lock().unwrap();
                                    if b.as_ref().map_or(true, |b| i < b.0) {
                                        *b = Some((i, case, f));
                                    }
                                    break;
                                }
                            }
                        }
                    }
                    self.merge(chk.name(), local, true, bounds, "bounded-exhaustive enumeration");
                });
            }
        });
        if let Some((_, case, f)) = best.into_inner().unwrap() {
            // an interrupted enumeration is not exhaustive
            let k = self.key(chk.name());
            if let Some(s) = self.ev.lock().unwrap().subs.get_mut(&k) {
                s.exhaustive = false;
            }
            self.report_violation(chk, &case, &f, "enumeration (smallest failing index)");
        }
    }

    /// Run a fixed list of hand-picked cases (regressions, textbook killers).
    pub fn run_list<C: Check>(&self, chk: &C, cases: Vec<C::Case>, bounds: &str) {
        let mut local = Local::default();
        let mut bad: Option<(C::Case, Fail)> = None;
        for case in cases {
            let mut obs = Obs::default();
            match run_test(chk, &case, &mut obs) {
                Ok(()) => local.absorb(chk, &case, &obs, 1),
                Err(f) => {
                    if obs.discarded.is_some() {
                        continue;
                    }
                    if let Some(k) = self.is_known(&f) {
                        *local.known_hits.entry(k.sig.clone()).or_insert(0) += 1;
                        continue;
                    }
                    if bad.is_none() {
                        bad = Some((case, f));
                    }
                }
            }
        }
        self.merge(chk.name(), local, false, bounds, "fixed list");
        if let Some((case, f)) = bad {
            self.report_violation(chk, &case, &f, "fixed list");
        }
    }

    /// Search-based generation: hill-climb on `Obs::hardness` starting from
    /// `start`, mutating with `mutate(case, rng)`. Any failure met on the way is a
    /// violation like any other.
    pub fn run_climb<C: Check>(
        &self,
        chk: &C,
        starts: Vec<C::Case>,
        steps: u32,
        mutate: impl Fn(&C::Case, &mut Sm) -> C::Case + Sync,
        bounds: &str,
    ) {
        let first_fail: Mutex<Option<(C::Case, Fail)>> = Mutex::new(None);
        let starts = Mutex::new(starts.into_iter().enumerate().collect::<Vec<_>>());
        std::thread::scope(|sc| {
            for _ in 0..self.workers {
                let first_fail = &first_fail;
                let starts = &starts;
                let mutate = &mutate;
                sc.spawn(move || {
                    let mut local = Local::default();
                    loop {
                        let (idx, mut cur) = match starts.lock().unwrap().pop() {
                            Some(s) => s,
                            None => break,
                        };
                        let mut rng = Sm(self.sub_seed(chk.name(), 1000 + idx));
                        let mut o = Obs::default();
                        let mut cur_h = match run_test(chk, &cur, &mut o) {
                            Ok(()) => {
                                local.absorb(chk, &cur, &o, 1);
                                if o.discarded.is_some() {
                                    continue;
                                }
                                o.hardness
                            }
                            Err(f) => {
                                if o.discarded.is_none() && self.is_known(&f).is_none() {
                                    let mut ff = first_fail.lock().unwrap();
                                    if ff.is_none() {
                                        *ff = Some((cur, f));
                                    }
                                }
                                continue;
                            }
                        };
                        for _ in 0..steps {
                            if first_fail.lock().unwrap().is_some() {
                                break;
                            }
                            let cand = mutate(&cur, &mut rng);
                            let mut o = Obs::default();
                            match run_test(chk, &cand, &mut o) {
                                Ok(()) => {
                                    local.absorb(chk, &cand, &o, 0);
                                    if o.discarded.is_none() && o.hardness >= cur_h {
                                        cur_h = o.hardness;
                                        cur = cand;
                                    }
                                }
                                Err(f) => {
                                    if o.discarded.is_some() || self.is_known(&f).is_some() {
                                        continue;
                                    }
                                    let mut ff = first_fail.lock().unwrap();
                                    if ff.is_none() {
                                        *ff = Some((cand, f));
                                    }
                                    break;
                                }
                            }
                        }
                    }
                    self.merge(&format!("{}", chk.name()), local, false, bounds, "proptest + hill-climbing search");
                });
            }
        });
        if let Some((case, f)) = first_fail.into_inner().unwrap() {
            self.report_violation(chk, &case, &f, "hill-climbing search");
        }
    }

    /// Write evidence/<ID>.json and return the process exit code.
    pub fn finish(&self) -> i32 {
        let ev = self.ev.lock().unwrap();
        for (sig, n) in &ev.known_hits {
            let text = self.known.iter().find(|k| &k.sig == sig).map(|k| k.text.clone()).unwrap_or_default();
            println!("KNOWN-FINDING: property={} {} ({} generated cases hit it; signature {})", self.id, text, n, sig);
        }
        let subs: BTreeMap<String, Value> = ev
            .subs
            .iter()
            .map(|(k, s)| {
                (
                    k.clone(),
                    json!({"cases": s.cases, "oracle_evaluations": s.evals, "nontrivial_cases": s.nontrivial_cases,
                           "discarded_out_of_domain": s.discarded, "exhaustive": s.exhaustive, "bounds": s.bounds, "engine": s.engine}),
                )
            })
            .collect();
        let hardest: BTreeMap<String, Value> =
            ev.hardest.iter().map(|(k, (r, v))| (k.clone(), json!({"hardness": r, "case": v}))).collect();
        let exhaustive_subspaces: Vec<String> =
            ev.subs.iter().filter(|(_, s)| s.exhaustive).map(|(k, s)| format!("{}: {}", k, s.bounds)).collect();
        let mut coverage = json!({
            "evaluations": ev.cases,
            "oracle_comparisons": ev.evals,
            "distinct_nontrivial": ev.distinct.len(),
            "rule": *self.rule.lock().unwrap(),
            "samples": ev.samples,
            "hardest_cases": hardest,
            "classes": ev.classes,
            "discarded_out_of_domain": ev.discarded,
            "sub_checks": subs,
            "exhaustive": false,
            "exhaustive_subspaces": exhaustive_subspaces,
            "notes": ev.notes,
            "known_findings_hit": ev.known_hits,
            "violation_details": ev.violations,
        });
        for (k, v) in &ev.extra {
            coverage[k] = v.clone();
        }
        let doc = json!({
            "property_id": self.id,
            "tier": if self.thorough() { "thorough" } else { "quick" },
            "seed": self.seed,
            "level": "exploration",
            "coverage": coverage,
            "assumptions": *self.assumptions.lock().unwrap(),
            "wall_s": self.start.elapsed().as_secs_f64(),
            "violations": ev.violations.len(),
        });
        if let Ok(fz) = std::env::var("VERIF_FUZZ_STATS") {
            if let Ok(v) = serde_json::from_str::<Value>(&fz) {
                coverage["libfuzzer_campaign"] = v;
            }
        }
        let doc = if coverage.get("libfuzzer_campaign").is_some() {
            let mut d = doc;
            d["coverage"] = coverage.clone();
            d
        } else {
            doc
        };
        if !self.write_evidence {
            println!("{} (cross-check build, evidence not written): cases={} violations={}", self.id, ev.cases, ev.violations.len());
            return if ev.violations.is_empty() { 0 } else { 1 };
        }
        let dir = self.root.join("evidence");
        let _ = std::fs::create_dir_all(&dir);
        let path = dir.join(format!("{}.json", self.id));
        if let Err(e) = std::fs::write(&path, serde_json::to_string_pretty(&doc).unwrap()) {
            eprintln!("cannot write evidence {}: {}", path.display(), e);
            return 2;
        }
        println!(
            "{} {}: cases={} oracle_comparisons={} distinct_nontrivial={} violations={} wall={:.1}s",
            self.id,
            if self.thorough() { "thorough" } else { "quick" },
            ev.cases,
            ev.evals,
            ev.distinct.len(),
            ev.violations.len(),
            self.start.elapsed().as_secs_f64()
        );
        if ev.violations.is_empty() {
            0
        } else {
            1
        }
    }
}

/// Strict re-execution of one saved case (no proptest, no known-findings list).
pub fn replay_case<C: Check>(chk: &C, case: &Value) -> Result<(), String> {
    let c: C::Case = serde_json::from_value(case.clone()).map_err(|e| format!("cannot decode case: {}", e))?;
    let mut o = Obs::default();
    match run_test(chk, &c, &mut o) {
        Ok(()) => {
            if let Some(r) = o.discarded {
                println!("note: case is outside the property's domain ({}) and was not judged", r);
            }
            Ok(())
        }
        Err(f) => Err(format!("[{}] {}", f.sig, f.msg)),
    }
}

fn load_known(root: &std::path::Path) -> Vec<Known> {
    let mut v = Vec::new();
    if let Ok(s) = std::fs::read_to_string(root.join("KNOWN_FINDINGS.txt")) {
        for line in s.lines() {
            let line = line.trim();
            // known: property=C05 signature=<sig> <free text>
            if let Some(rest) = line.strip_prefix("known:") {
                let mut prop = String::new();
                let mut sig = String::new();
                let mut text = Vec::new();
                for tok in rest.split_whitespace() {
                    if let Some(p) = tok.strip_prefix("property=") {
                        prop = p.to_string();
                    } else if let Some(p) = tok.strip_prefix("signature=") {
                        sig = p.to_string();
                    } else {
                        text.push(tok);
                    }
                }
                if !prop.is_empty() && !sig.is_empty() {
                    v.push(Known { property: prop, sig, text: text.join(" ") });
                }
            }
        }
    }
    v
}

/// Small deterministic PRNG used *only* where the random choices are not part
/// of a proptest-generated case: expanding a proptest-generated u64 into bulk
/// data (10^5..10^6 elements) and the mutation steps of the hill-climber, both
/// seeded from proptest / VERIF_SEED so every run is a pure function of the seed.
pub struct Sm(pub u64);
impl Sm {
    pub fn next(&mut self) -> u64 {
        self.0 = self.0.wrapping_add(0x9E3779B97F4A7C15);
        let mut z = self.0;
        z = (z ^ (z >> 30)).wrapping_mul(0xBF58476D1CE4E5B9);
        z = (z ^ (z >> 27)).wrapping_mul(0x94D049BB133111EB);
        z ^ (z >> 31)
    }
    pub fn f(&mut self) -> f64 {
        (self.next() >> 11) as f64 / (1u64 << 53) as f64
    }
    pub fn below(&mut self, n: u64) -> u64 {
        self.next() % n.max(1)
    }
    pub fn range(&mut self, a: f64, b: f64) -> f64 {
        a + (b - a) * self.f()
    }
    pub fn normal(&mut self) -> f64 {
        let u1 = self.f().max(1e-300);
        let u2 = self.f();
        (-2.0 * u1.ln()).sqrt() * (2.0 * std::f64::consts::PI * u2).cos()
    }
}

/// serde helpers: floats as strings ("1.5", "-0.0", "inf", "NaN") so that replay
/// files and evidence samples are lossless for every f64 JSON cannot carry.
pub mod fstr {
    use serde::{Deserialize, Deserializer, Serializer};
    pub fn enc(x: f64) -> String {
        format!("{:?}", x)
    }
    pub fn dec(s: &str) -> Result<f64, String> {
        s.parse::<f64>().map_err(|e| format!("bad float {:?}: {}", s, e))
    }
    pub fn serialize<S: Serializer>(x: &f64, s: S) -> Result<S::Ok, S::Error> {
        s.serialize_str(&enc(*x))
    }
    pub fn deserialize<'de, D: Deserializer<'de>>(d: D) -> Result<f64, D::Error> {
        let s = String::deserialize(d)?;
        dec(&s).map_err(serde::de::Error::custom)
    }
}
pub mod fvec {
    use serde::ser::SerializeSeq;
    use serde::{Deserialize, Deserializer, Serializer};
    pub fn serialize<S: Serializer>(x: &Vec<f64>, s: S) -> Result<S::Ok, S::Error> {
        let mut q = s.serialize_seq(Some(x.len()))?;
        for v in x {
            q.serialize_element(&super::fstr::enc(*v))?;
        }
        q.end()
    }
    pub fn deserialize<'de, D: Deserializer<'de>>(d: D) -> Result<Vec<f64>, D::Error> {
        let v = Vec::<String>::deserialize(d)?;
        v.iter().map(|s| super::fstr::dec(s).map_err(serde::de::Error::custom)).collect()
    }
}
pub mod fpairs {
    use serde::ser::SerializeSeq;
    use serde::{Deserialize, Deserializer, Serializer};
    pub fn serialize<S: Serializer>(x: &Vec<(f64, f64)>, s: S) -> Result<S::Ok, S::Error> {
        let mut q = s.serialize_seq(Some(x.len()))?;
        for v in x {
            q.serialize_element(&(super::fstr::enc(v.0), super::fstr::enc(v.1)))?;
        }
        q.end()
    }
    pub fn deserialize<'de, D: Deserializer<'de>>(d: D) -> Result<Vec<(f64, f64)>, D::Error> {
        let v = Vec::<(String, String)>::deserialize(d)?;
        v.iter()
            .map(|(a, b)| Ok((super::fstr::dec(a).map_err(serde::de::Error::custom)?, super::fstr::dec(b).map_err(serde::de::Error::custom)?)))
            .collect()
    }
}
