//! Exact reference statistics (big-integer sums of the dyadic-rational inputs)
//! and the error envelopes of DESIGN.md section 4.
use crate::engine::{fail, Obs, TestResult};
use crate::exact::*;

/// unit roundoff 2^-53
pub const U: f64 = 1.1102230246251565e-16;

pub struct Exact {
    pub n: u64,
    pub mean: Xf,
    /// csum[p] = sum (x-mean)^p, p = 0..=order (csum[1] = 0)
    pub csum: Vec<Xf>,
    /// asum[p] = sum |x-mean|^p
    pub asum: Vec<Xf>,
    pub max_abs: f64,
    pub min: f64,
    pub max: f64,
    pub zero_spread: bool,
}

/// All inputs as integers over a common power of two: x_i = ints[i] * 2^e.
pub fn to_ints(xs: &[f64]) -> (Vec<Big>, i64) {
    let emin = xs.iter().filter(|x| **x != 0.0).map(|&x| Big::decompose(x).1).min().unwrap_or(0);
    let v = xs
        .iter()
        .map(|&x| {
            let (m, e) = Big::decompose(x);
            if m == 0 {
                Big::zero()
            } else {
                Big::from_i128(m as i128).shl((e - emin) as u64)
            }
        })
        .collect();
    (v, emin)
}

pub fn exact_moments(xs: &[f64], order: usize) -> Exact {
    let n = xs.len() as u64;
    assert!(n > 0);
    let order = order.max(2);
    let (ints, e) = to_ints(xs);
    let mut s1 = Big::zero();
    for x in &ints {
        s1 = s1.add(x);
    }
    let nb = Big::from_u64(n);
    let nx = Xf::from_u64(n);
    let mean = s1.to_xf().div(&nx).scale2(e);
    let mut p = vec![Big::zero(); order + 1];
    let mut a = vec![Big::zero(); order + 1];
    for x in &ints {
        let d = x.mul(&nb).sub(&s1);
        let da = d.abs();
        let mut pw = d.clone();
        let mut pwa = da.clone();
        for k in 2..=order {
            pw = pw.mul(&d);
            pwa = pwa.mul(&da);
            p[k] = p[k].add(&pw);
            a[k] = a[k].add(&pwa);
        }
        a[1] = a[1].add(&da);
    }
    let mut csum = vec![Xf::zero(); order + 1];
    let mut asum = vec![Xf::zero(); order + 1];
    csum[0] = nx;
    asum[0] = nx;
    for k in 1..=order {
        let den = nx.powi(k as u32);
        csum[k] = p[k].to_xf().div(&den).scale2(k as i64 * e);
        asum[k] = a[k].to_xf().div(&den).scale2(k as i64 * e);
    }
    let max_abs = xs.iter().fold(0.0f64, |m, x| m.max(x.abs()));
    let min = xs.iter().cloned().fold(f64::INFINITY, f64::min);
    let max = xs.iter().cloned().fold(f64::NEG_INFINITY, f64::max);
    let zero_spread = p[2].is_zero();
    Exact { n, mean, csum, asum, max_abs, min, max, zero_spread }
}

impl Exact {
    pub fn nf(&self) -> f64 {
        self.n as f64
    }
    pub fn nx(&self) -> Xf {
        Xf::from_u64(self.n)
    }
    pub fn pop_var(&self) -> Xf {
        self.csum[2].div(&self.nx())
    }
    /// requires n >= 2
    pub fn sample_var(&self) -> Xf {
        self.csum[2].div(&Xf::from_u64(self.n - 1))
    }
    pub fn var_of_mean(&self) -> Xf {
        self.sample_var().div(&self.nx())
    }
    pub fn sigma(&self) -> Xf {
        self.pop_var().sqrt()
    }
    /// kappa = 1 + max|x|/sigma (infinite for zero spread)
    pub fn kappa(&self) -> f64 {
        if self.zero_spread {
            return f64::INFINITY;
        }
        let s = self.sigma().to_f64();
        1.0 + self.max_abs / s
    }
    pub fn central(&self, p: usize) -> Xf {
        self.csum[p].div(&self.nx())
    }
    pub fn abs_central(&self, p: usize) -> Xf {
        self.asum[p].div(&self.nx())
    }
    /// m_p / sigma^p
    pub fn standardized(&self, p: usize) -> Xf {
        self.central(p).div(&self.sigma().powi(p as u32))
    }
    /// beta_p = rho_p / sigma^p
    pub fn beta(&self, p: usize) -> f64 {
        self.abs_central(p).div(&self.sigma().powi(p as u32)).to_f64()
    }
    /// n * kappa * u
    pub fn nku(&self) -> f64 {
        self.nf() * self.kappa() * U
    }
    /// envelope of a mean: 8 n u (sigma + M)
    pub fn env_mean(&self) -> f64 {
        8.0 * self.nf() * U * (self.sigma().to_f64() + self.max_abs)
    }
}

/// |a - b| as f64 where a is an implementation value and b exact
/// (infinite if a is not finite).
pub fn abs_err(a: f64, b: &Xf) -> f64 {
    if !a.is_finite() {
        return f64::INFINITY;
    }
    Xf::from_f64(a).sub(b).abs().to_f64()
}

/// The C(p) = 2^(p+2) rule.
pub fn cp(p: usize) -> f64 {
    (1u64 << (p + 2)) as f64
}

/// Judge one reported value against its exact value and envelope.
/// NaN/inf where a number is due is a violation.
pub fn judge(o: &mut Obs, what: &str, got: f64, exact: &Xf, env: f64) -> TestResult {
    o.evals += 1;
    let err = abs_err(got, exact);
    if env > 0.0 {
        o.hard(err / env);
    }
    if !(err <= env) {
        return fail(
            &format!("envelope:{}", what),
            format!("{} = {:e} but exact value is {:e}: |error| = {:e} exceeds the envelope {:e} (ratio {:.3e})", what, got, exact.to_f64(), err, env, err / env),
        );
    }
    Ok(())
}

pub fn judge_eq_u64(o: &mut Obs, what: &str, got: u64, want: u64) -> TestResult {
    o.evals += 1;
    if got != want {
        return fail(&format!("exact:{}", what), format!("{} = {} but must be exactly {}", what, got, want));
    }
    Ok(())
}

pub fn judge_bits(o: &mut Obs, what: &str, got: f64, want: f64) -> TestResult {
    o.evals += 1;
    if got.to_bits() != want.to_bits() && !(got.is_nan() && want.is_nan()) {
        return fail(&format!("bits:{}", what), format!("{} = {:?} but must be bit-for-bit {:?}", what, got, want));
    }
    Ok(())
}

pub fn judge_nan(o: &mut Obs, what: &str, got: f64) -> TestResult {
    o.evals += 1;
    if !got.is_nan() {
        return fail(&format!("sentinel:{}", what), format!("{} = {:?} but the documented sentinel is NaN", what, got));
    }
    Ok(())
}

/// C01 value domain: x = 0 or 1e-30 <= |x| <= 1e30.
pub fn in_c01_domain(xs: &[f64]) -> bool {
    xs.iter().all(|x| x.is_finite() && (*x == 0.0 || (x.abs() >= 1e-30 && x.abs() <= 1e30)))
}

/// Exact co-moment and per-coordinate statistics of pairs.
pub struct ExactPairs {
    pub x: Exact,
    pub y: Exact,
    /// sum (x-mx)(y-my)
    pub sxy: Xf,
}
pub fn exact_pairs(ps: &[(f64, f64)]) -> ExactPairs {
    let xs: Vec<f64> = ps.iter().map(|p| p.0).collect();
    let ys: Vec<f64> = ps.iter().map(|p| p.1).collect();
    let n = ps.len();
    let ex = exact_moments(&xs, 2);
    let ey = exact_moments(&ys, 2);
    let (ix, e1) = to_ints(&xs);
    let (iy, e2) = to_ints(&ys);
    let nb = Big::from_u64(n as u64);
    let mut sx = Big::zero();
    let mut sy = Big::zero();
    for i in 0..n {
        sx = sx.add(&ix[i]);
        sy = sy.add(&iy[i]);
    }
    let mut c = Big::zero();
    for i in 0..n {
        c = c.add(&ix[i].mul(&nb).sub(&sx).mul(&iy[i].mul(&nb).sub(&sy)));
    }
    let nx = Xf::from_u64(n as u64);
    let sxy = c.to_xf().div(&nx.mul(&nx)).scale2(e1 + e2);
    ExactPairs { x: ex, y: ey, sxy }
}

/// Exact weighted sums.
pub struct ExactW {
    pub sw: Xf,
    pub sw2: Xf,
    pub wmean: Option<Xf>,
    pub eff: Option<Xf>,
    pub sw_pos: bool,
}
pub fn exact_weighted(xs: &[f64], ws: &[f64]) -> ExactW {
    let (ix, e1) = to_ints(xs);
    let (iw, ew) = to_ints(ws);
    let mut bw = Big::zero();
    let mut bwx = Big::zero();
    let mut bw2 = Big::zero();
    for i in 0..xs.len() {
        bw = bw.add(&iw[i]);
        bwx = bwx.add(&iw[i].mul(&ix[i]));
        bw2 = bw2.add(&iw[i].mul(&iw[i]));
    }
    let sw = bw.to_xf().scale2(ew);
    let sw2 = bw2.to_xf().scale2(2 * ew);
    let pos = !bw.is_zero() && !bw.neg;
    let (wmean, eff) = if pos {
        (Some(bwx.to_xf().div(&bw.to_xf()).scale2(e1)), Some(sw.mul(&sw).div(&sw2)))
    } else {
        (None, None)
    };
    ExactW { sw, sw2, wmean, eff, sw_pos: pos }
}

/// Self-test of the oracle arithmetic against values computed with Python's
/// `fractions` (see tools/oracle_selftest.py, which regenerates the table).
pub fn selftest() -> Result<(), String> {
    // (data, exact mean, pop var, m3, m4) — decimal strings with 30 digits from fractions.Fraction
    let xs = [1.0, 2.0, 3.0, 4.0, 5.0, 1.0];
    let ex = exact_moments(&xs, 4);
    let chk = |name: &str, got: f64, want: f64| -> Result<(), String> {
        if (got - want).abs() > 1e-15 * want.abs().max(1e-300) {
            Err(format!("oracle selftest {}: got {:e} want {:e}", name, got, want))
        } else {
            Ok(())
        }
    };
    chk("mean", ex.mean.to_f64(), 16.0 / 6.0)?;
    chk("var", ex.pop_var().to_f64(), 2.2222222222222223)?;
    chk("m3", ex.central(3).to_f64(), 0.9259259259259259)?;
    chk("m4", ex.central(4).to_f64(), 8.074074074074074)?;
    // ill-conditioned: 1e9 + {0,1,2}: variance exactly 2/3
    let ys = [1e9, 1e9 + 1.0, 1e9 + 2.0];
    let ey = exact_moments(&ys, 4);
    chk("var offset", ey.pop_var().to_f64(), 2.0 / 3.0)?;
    chk("kappa", ey.kappa(), 1.0 + (1e9 + 2.0) / (2.0f64 / 3.0).sqrt())?;
    // non-dyadic decimals: 0.1, 0.2, 0.3 (as f64) — values from fractions.Fraction
    let zs = [0.1, 0.2, 0.3];
    let ez = exact_moments(&zs, 4);
    chk("mean dec", ez.mean.to_f64(), 0.2)?; // 0.20000000000000001850371707708594...
    chk("var dec", ez.pop_var().to_f64(), 0.006666666666666668)?;
    // double-double precision: (2^53+1)^2 has 107 bits; check via exact integer identity
    let b = Big::from_u64((1u64 << 53) + 1);
    let sq = b.mul(&b);
    let back = sq.to_xf().sqrt();
    let d = back.sub(&b.to_xf()).abs().to_f64();
    if d > 1e-14 {
        return Err(format!("oracle selftest sqrt: residual {:e}", d));
    }
    // weighted
    let w = exact_weighted(&[1.0, 2.0, 4.0], &[0.0, 1.0, 1.0]);
    chk("wmean", w.wmean.unwrap().to_f64(), 3.0)?;
    chk("eff", w.eff.unwrap().to_f64(), 2.0)?;
    // pairs
    let p = exact_pairs(&[(1., 5.), (2., 4.), (3., 3.), (4., 2.), (5., 1.)]);
    chk("sxy", p.sxy.to_f64(), -10.0)?;
    Ok(())
}

/// Cross-check of the oracle against tools/oracle_table.json (exact values computed
/// with Python's fractions.Fraction, stored as double-double): agreement to 2^-90
/// relative for means, central and absolute central moments up to order 10, sigma,
/// weighted sums and co-moments.
pub fn selftest_table(path: &std::path::Path) -> Result<usize, String> {
    let text = std::fs::read_to_string(path).map_err(|e| format!("cannot read {}: {}", path.display(), e))?;
    let v: serde_json::Value = serde_json::from_str(&text).map_err(|e| e.to_string())?;
    let pf = |x: &serde_json::Value| -> f64 { x.as_str().unwrap().parse::<f64>().unwrap() };
    let dd = |x: &serde_json::Value| -> Xf { Xf::from_f64(pf(&x[0])).add(&Xf::from_f64(pf(&x[1]))) };
    let close = |name: &str, set: &str, got: &Xf, want: &Xf| -> Result<(), String> {
        let d = got.sub(want).abs();
        let ok = if want.is_zero() { d.is_zero() } else { d.div(&want.abs()).to_f64() <= 2f64.powi(-90) };
        if ok {
            Ok(())
        } else {
            Err(format!("oracle table mismatch in {} / {}: got {:e} want {:e} (relative difference {:e})", set, name, got.to_f64(), want.to_f64(), if want.is_zero() { f64::INFINITY } else { d.div(&want.abs()).to_f64() }))
        }
    };
    let mut n_checked = 0usize;
    for set in v.as_array().ok_or("table is not an array")? {
        let name = set["name"].as_str().unwrap_or("?");
        let xs: Vec<f64> = set["xs"].as_array().unwrap().iter().map(pf).collect();
        let ex = exact_moments(&xs, 10);
        close("mean", name, &ex.mean, &dd(&set["mean"]))?;
        for p in 2..=10usize {
            close(&format!("central({})", p), name, &ex.central(p), &dd(&set["central"][p.to_string()]))?;
            close(&format!("abs_central({})", p), name, &ex.abs_central(p), &dd(&set["abs_central"][p.to_string()]))?;
            n_checked += 2;
        }
        if let Some(sg) = set.get("sigma") {
            close("sigma", name, &ex.sigma(), &dd(sg))?;
        }
        if let Some(ws) = set.get("ws") {
            let ws: Vec<f64> = ws.as_array().unwrap().iter().map(pf).collect();
            let ew = exact_weighted(&xs, &ws);
            close("sum_w", name, &ew.sw, &dd(&set["sum_w"]))?;
            close("sum_w2", name, &ew.sw2, &dd(&set["sum_w2"]))?;
            if let Some(wm) = set.get("wmean") {
                close("wmean", name, ew.wmean.as_ref().ok_or("no wmean")?, &dd(wm))?;
                close("eff", name, ew.eff.as_ref().ok_or("no eff")?, &dd(&set["eff"]))?;
            }
            n_checked += 4;
        }
        if let Some(ys) = set.get("ys") {
            let ys: Vec<f64> = ys.as_array().unwrap().iter().map(pf).collect();
            let ps: Vec<(f64, f64)> = xs.iter().copied().zip(ys.iter().copied()).collect();
            let ep = exact_pairs(&ps);
            close("sxy", name, &ep.sxy, &dd(&set["sxy"]))?;
            n_checked += 1;
        }
    }
    Ok(n_checked)
}
