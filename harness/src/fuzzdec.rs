//! Byte-level decoders for the coverage-guided (libFuzzer) targets: bytes are
//! decoded into the same structured cases the proptest strategies produce and
//! judged by the *same* oracle functions. Used by /verif/fuzz/fuzz_targets/*.rs
//! and by `check fuzz-replay <target> <file>` (which turns a crash artifact into
//! a replay file).
use crate::engine::*;
use crate::props::{c05, c06, c07, c11, c12, c13, c14, c15, c18, c20};
use arbitrary::Unstructured;

const VALUE_TABLE: [f64; 16] = [0.0, 1.0, -1.0, 2.5, 0.5, 3.0, 7.0, -2.0, 10.0, 100.0, -0.0, 1e-3, 1e9, 1e9 + 1.0, 0.1, -7.25];

fn value(u: &mut Unstructured, mode: u8) -> Option<f64> {
    Some(match mode % 4 {
        0 => VALUE_TABLE[(u.arbitrary::<u8>().ok()? % 4) as usize],
        1 => VALUE_TABLE[(u.arbitrary::<u8>().ok()? % 16) as usize],
        2 => u.arbitrary::<i8>().ok()? as f64 * 0.25,
        _ => {
            let x = f64::from_bits(u.arbitrary::<u64>().ok()?);
            if x.is_finite() && x.abs() < 1e150 {
                x
            } else {
                VALUE_TABLE[(x.to_bits() % 16) as usize]
            }
        }
    })
}

fn p_value(u: &mut Unstructured) -> Option<f64> {
    let b = u.arbitrary::<u8>().ok()?;
    Some(if (b as usize) < c05::P_GRID.len() {
        c05::P_GRID[b as usize]
    } else if b < 64 {
        b as f64 / 63.0
    } else {
        u.arbitrary::<u16>().ok()? as f64 / 65535.0
    })
}

/// One failure found by a fuzz target (property id, check, case as JSON, message).
pub struct Found {
    pub property: &'static str,
    pub check: &'static str,
    pub case: serde_json::Value,
    pub fail: Fail,
}

/// VERIF_FUZZ_ONLY=<ID> restricts a campaign to the oracles of one property
fn only() -> Option<&'static str> {
    static ONLY: std::sync::OnceLock<Option<String>> = std::sync::OnceLock::new();
    ONLY.get_or_init(|| std::env::var("VERIF_FUZZ_ONLY").ok().filter(|s| !s.is_empty())).as_deref()
}

fn run<C: Check>(property: &'static str, chk: &C, case: &C::Case, known: &[&str]) -> Option<Found> {
    if let Some(o) = only() {
        if o != property {
            return None;
        }
    }
    let mut o = Obs::default();
    let r = std::panic::catch_unwind(std::panic::AssertUnwindSafe(|| chk.test(case, &mut o)));
    let f = match r {
        Ok(Ok(())) => return None,
        Ok(Err(f)) => f,
        Err(_) => Fail { sig: "panic".into(), msg: format!("unexpected panic: {}", take_panic()) },
    };
    if o.discarded.is_some() || known.contains(&f.sig.as_str()) {
        return None;
    }
    Some(Found { property, check: chk.name(), case: serde_json::to_value(case).unwrap_or(serde_json::Value::Null), fail: f })
}

/// C05 / C07 / C15 on one decoded (p, stream).
pub fn quantile(data: &[u8], known: &[&str]) -> Option<Found> {
    let mut u = Unstructured::new(data);
    let p = p_value(&mut u)?;
    let mode = u.arbitrary::<u8>().ok()?;
    let mut xs = Vec::new();
    while xs.len() < 2048 {
        match value(&mut u, mode) {
            Some(v) => xs.push(v),
            None => break,
        }
        if u.is_empty() {
            break;
        }
    }
    let case = c05::QStream { p, xs };
    if let Some(f) = run("C15", &c15::Book, &case, known) {
        return Some(f);
    }
    if case.xs.len() >= 1 && case.xs.len() <= 4 {
        if let Some(f) = run("C07", &c07::Small, &case, known) {
            return Some(f);
        }
    }
    // the differential oracle needs moderate magnitudes (its tolerance is relative to the data range)
    if case.xs.iter().all(|x| x.abs() <= 1e100) {
        if let Some(f) = run("C05", &c05::P2Diff, &case, known) {
            return Some(f);
        }
    }
    None
}

fn lattice_value(b: u8) -> f64 {
    c12::LATTICE9[(b % 9) as usize]
}

/// C06 / C12 / C13 on one decoded histogram scenario.
pub fn histogram(data: &[u8], known: &[&str]) -> Option<Found> {
    let mut u = Unstructured::new(data);
    let which = u.arbitrary::<u8>().ok()?;
    let sel = u.arbitrary::<u8>().ok()?;
    let imp = crate::hist::IMPLS[(sel as usize >> 4) % crate::hist::IMPLS.len()].to_string();
    let len = [1usize, 2, 3, 4, 10][(sel % 5) as usize];
    match which % 3 {
        0 => {
            // construction: arbitrary list over the lattice (plus a few arbitrary floats)
            let n = (u.arbitrary::<u8>().ok()? as usize) % (len + 4);
            let mut list = Vec::new();
            for _ in 0..n {
                let b = u.arbitrary::<u8>().ok()?;
                list.push(if b < 200 { lattice_value(b) } else { value(&mut u, 3)? });
            }
            run("C12", &c12::FromRanges, &c12::EdgeList { imp, len, list }, known)
        }
        1 => {
            // lookup: sorted edges from increments, samples around them
            let mut edges = Vec::new();
            let mut cur = (u.arbitrary::<i8>().ok()? as f64) * 0.5;
            for _ in 0..=len {
                let step = u.arbitrary::<u8>().ok()?;
                if step % 4 != 0 {
                    cur += (step % 8) as f64 * 0.25;
                }
                edges.push(cur);
            }
            let infs = u.arbitrary::<u8>().ok()?;
            if infs & 1 == 1 {
                edges[0] = f64::NEG_INFINITY;
            }
            if infs & 2 == 2 {
                edges[len] = f64::INFINITY;
            }
            let mut samples = Vec::new();
            while samples.len() < 64 && !u.is_empty() {
                let k = u.arbitrary::<u8>().ok()?;
                let e = edges[(k as usize >> 3) % edges.len()];
                samples.push(match k % 8 {
                    0 => e,
                    1 => crate::hist::next_up(e),
                    2 => crate::hist::next_down(e),
                    3 => f64::NAN,
                    4 => f64::INFINITY,
                    5 => f64::NEG_INFINITY,
                    6 => -0.0,
                    _ => value(&mut u, 2)?,
                });
            }
            run("C06", &c06::BinLookup, &c06::Lookup { imp, len, const_width: None, edges, resets: if infs & 4 == 4 { vec![samples.len() / 2] } else { vec![] }, samples }, known)
        }
        _ => {
            let mut ea = Vec::new();
            let mut cur = (u.arbitrary::<i8>().ok()? as f64) * 0.5;
            for _ in 0..=len {
                let step = u.arbitrary::<u8>().ok()?;
                if step % 4 != 0 {
                    cur += (step % 8) as f64 * 0.25;
                }
                ea.push(cur);
            }
            let mut eb = ea.clone();
            let m = u.arbitrary::<u8>().ok()?;
            match m % 4 {
                0 => {}
                1 => {
                    for v in eb.iter_mut() {
                        if *v == 0.0 {
                            *v = -*v;
                        }
                    }
                }
                _ => {
                    let p = (m as usize >> 2) % eb.len();
                    let c = crate::hist::next_up(eb[p]);
                    if p + 1 >= eb.len() || c <= eb[p + 1] {
                        eb[p] = c;
                    }
                }
            }
            let mut ops = Vec::new();
            while ops.len() < 48 && !u.is_empty() {
                let b = u.arbitrary::<u8>().ok()?;
                let (h, j) = ((b as usize >> 3) % 4, (b as usize >> 5) % 4);
                ops.push(match b % 8 {
                    0 | 1 | 2 => {
                        let k = u.arbitrary::<u8>().ok()?;
                        let e = ea[(k as usize >> 2) % ea.len()];
                        let x = match k % 4 {
                            0 => e,
                            1 => crate::hist::next_down(e),
                            2 => e + 0.125,
                            _ => f64::NAN,
                        };
                        c13::Op::Add { h, x: fstr::enc(x) }
                    }
                    3 => c13::Op::Merge { dst: h, src: j },
                    4 => c13::Op::AddAssign { dst: h, src: j },
                    5 => c13::Op::Mul { h, k: [0u64, 1, 2, 3, 5, 1 << 53][(u.arbitrary::<u8>().ok()? % 6) as usize] },
                    6 => c13::Op::Reset { h },
                    _ => c13::Op::Clone { dst: h % 3, src: j % 3 },
                });
            }
            run("C13", &c13::Algebra, &c13::History { imp, len, edges_a: ea, edges_b: eb, ops }, known)
        }
    }
}

const TYPES: [&str; 16] = ["Mean", "Variance", "Skewness", "Kurtosis", "Moments4", "M6", "Min", "Max", "WeightedMean", "WeightedMeanWithError", "Covariance", "Histogram<3>", "Histogram<10>", "Quantile(0.5)", "Quantile(0.9)", "M10"];

/// C11 / C14 / C18 / C20 on one decoded operation history.
pub fn history(data: &[u8], known: &[&str]) -> Option<Found> {
    let mut u = Unstructured::new(data);
    let which = u.arbitrary::<u8>().ok()?;
    let ty = TYPES[(u.arbitrary::<u8>().ok()? % 16) as usize];
    let kind = crate::est::kind_of(ty);
    let mode = u.arbitrary::<u8>().ok()?;
    let second = |u: &mut Unstructured| -> Option<f64> {
        Some(match kind {
            crate::est::Kind::Weighted => [0.0, 1.0, 0.5, 2.0, 1e-6, 1e6, 3.0, 0.0][(u.arbitrary::<u8>().ok()? % 8) as usize],
            crate::est::Kind::Xy => value(u, mode)?,
            _ => 0.0,
        })
    };
    let first = |u: &mut Unstructured| -> Option<f64> {
        let v = value(u, mode)?;
        // the C01 value domain for everything except Min/Max
        Some(if v != 0.0 && (v.abs() < 1e-30 || v.abs() > 1e30) { 1.0 } else { v })
    };
    match which % 4 {
        0 => {
            if !crate::est::MERGE_TYPES.contains(&ty) {
                return None;
            }
            let mut ops = Vec::new();
            while ops.len() < 64 && !u.is_empty() {
                let b = u.arbitrary::<u8>().ok()?;
                let (i, j) = ((b as usize >> 2) % 3, (b as usize >> 4) % 3);
                ops.push(match b % 4 {
                    0 | 1 => c11::Op11::Add { i, x: first(&mut u)?, y: second(&mut u)? },
                    2 => {
                        if b & 0xc0 == 0xc0 {
                            c11::Op11::SelfMerge { i, times: 54 }
                        } else {
                            c11::Op11::Merge { i, j }
                        }
                    }
                    _ => {
                        if b & 0x80 != 0 {
                            c11::Op11::New { i }
                        } else {
                            c11::Op11::Clone { i, j }
                        }
                    }
                });
            }
            run("C11", &c11::Identity, &c11::H11 { ty: ty.to_string(), ops }, known)
        }
        1 => {
            let mut ops = Vec::new();
            while ops.len() < 64 && !u.is_empty() {
                let b = u.arbitrary::<u8>().ok()?;
                if b % 16 == 9 {
                    ops.push(c18::SOp::SelfMerge { times: if b & 0x80 != 0 { 55 } else { 2 } });
                } else if b % 8 == 0 {
                    let k = (b as usize >> 3) % 5;
                    let mut vals = Vec::new();
                    for _ in 0..k {
                        vals.push((first(&mut u)?, second(&mut u)?));
                    }
                    ops.push(c18::SOp::Merge { vals });
                } else {
                    ops.push(c18::SOp::Add { x: first(&mut u)?, y: second(&mut u)? });
                }
            }
            let cp = if ops.is_empty() { 0 } else { (mode as usize) % (ops.len() + 1) };
            run("C18", &c18::RoundTrip, &c18::S18 { ty: ty.to_string(), ops, checkpoint: cp }, known)
        }
        2 => {
            if !crate::est::INGEST_TYPES.contains(&ty) {
                return None;
            }
            let paths: Vec<u8> = (0..6).map(|_| u.arbitrary::<u8>().unwrap_or(4) % 9).collect();
            let ncuts = (u.arbitrary::<u8>().ok()? % 5) as usize;
            let cut_bytes: Vec<u8> = (0..ncuts).map(|_| u.arbitrary::<u8>().unwrap_or(0)).collect();
            let mut vals = Vec::new();
            while vals.len() < 300 && !u.is_empty() {
                vals.push((first(&mut u)?, second(&mut u)?));
            }
            let mut cuts: Vec<usize> = cut_bytes.iter().map(|b| (*b as usize * (vals.len() + 1)) >> 8).collect();
            cuts.sort();
            run("C20", &c20::Paths, &c20::Ingest { ty: ty.to_string(), vals, cuts, paths }, known)
        }
        _ => {
            let path = mode % 6;
            let ncuts = (u.arbitrary::<u8>().ok()? % 3) as usize;
            let cut_bytes: Vec<u8> = (0..ncuts).map(|_| u.arbitrary::<u8>().unwrap_or(0)).collect();
            let mut xs = Vec::new();
            while xs.len() < 64 && !u.is_empty() {
                let b = u.arbitrary::<u8>().ok()?;
                xs.push(if b < 64 { c14::ALPHABET[(b % 7) as usize] } else { f64::from_bits(u.arbitrary::<u64>().ok()?) });
            }
            let mut cuts: Vec<usize> = cut_bytes.iter().map(|b| (*b as usize * (xs.len() + 1)) >> 8).collect();
            cuts.sort();
            let merges = vec![0; cuts.len()];
            run("C14", &c14::Extremes, &c14::MM { xs, cuts, merges, path }, known)
        }
    }
}

/// Signatures of the known findings a campaign must tolerate in-target (otherwise it
/// would rediscover one crash forever): the `known:` lines of $VERIF_ROOT/KNOWN_FINDINGS.txt.
pub fn known_sigs() -> &'static [&'static str] {
    static K: std::sync::OnceLock<Vec<&'static str>> = std::sync::OnceLock::new();
    K.get_or_init(|| {
        let root = std::env::var("VERIF_ROOT").unwrap_or_else(|_| "/verif".into());
        let mut v: Vec<&'static str> = Vec::new();
        if let Ok(s) = std::fs::read_to_string(std::path::Path::new(&root).join("KNOWN_FINDINGS.txt")) {
            for line in s.lines() {
                if let Some(rest) = line.trim().strip_prefix("known:") {
                    for tok in rest.split_whitespace() {
                        if let Some(sig) = tok.strip_prefix("signature=") {
                            v.push(Box::leak(sig.to_string().into_boxed_str()));
                        }
                    }
                }
            }
        }
        v
    })
}

pub fn run_target(target: &str, data: &[u8], known: &[&str]) -> Option<Found> {
    match target {
        "quantile" => quantile(data, known),
        "histogram" => histogram(data, known),
        "history" => history(data, known),
        _ => None,
    }
}
