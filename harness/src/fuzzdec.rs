//! Byte-level decoders for the coverage-guided (libFuzzer) targets: bytes are
//! decoded into the same structured cases the proptest strategies produce and
//! judged by the *same* oracle functions. Used by /verif/fuzz/fuzz_targets/*.rs
//! and by `check fuzz-replay <target> <file>` (which turns a crash artifact into
//! a replay file).
use crate::engine::*;
use crate::props::common::Xs;
use crate::props::{c01, c02, c03, c04, c05, c06, c07, c08, c09, c10, c11, c12, c13, c14, c15, c16, c17, c18, c20};
use arbitrary::Unstructured;

const VALUE_TABLE: [f64; 16] = [0.0, 1.0, -1.0, 2.5, 0.5, 3.0, 7.0, -2.0, 10.0, 100.0, -0.0, 1e-3, 1e9, 1e9 + 1.0, 0.1, -7.25];

fn value(u: &mut Unstructured, mode: u8) -> Option<f64> {
    Some(match mode % 4 {
        0 => VALUE_TABLE[(u.arbitrary::<u8>().ok()? % 4) as usize],
        1 => VALUE_TABLE[(u.arbitrary::<u8>().ok()? % 16) as usize],
        2 => u.arbitrary::<i8>().ok()? as f64 * 0.25,
        _ => {
            let x = f64::from_bits(u.arbitrary::<u64>().ok()?);
            if x.is_finite() && x.abs() < 1e150 {
                x
            } else {
                VALUE_TABLE[(x.to_bits() % 16) as usize]
            }
        }
    })
}

fn p_value(u: &mut Unstructured) -> Option<f64> {
    let b = u.arbitrary::<u8>().ok()?;
    Some(if (b as usize) < c05::P_GRID.len() {
        c05::P_GRID[b as usize]
    } else if b < 64 {
        b as f64 / 63.0
    } else {
        u.arbitrary::<u16>().ok()? as f64 / 65535.0
    })
}

/// One failure found by a fuzz target (property id, check, case as JSON, message).
pub struct Found {
    pub property: &'static str,
    pub check: &'static str,
    pub case: serde_json::Value,
    pub fail: Fail,
}

/// VERIF_FUZZ_ONLY=<ID> restricts a campaign to the oracles of one property
fn only() -> Option<&'static str> {
    static ONLY: std::sync::OnceLock<Option<String>> = std::sync::OnceLock::new();
    ONLY.get_or_init(|| std::env::var("VERIF_FUZZ_ONLY").ok().filter(|s| !s.is_empty())).as_deref()
}

fn run<C: Check>(property: &'static str, chk: &C, case: &C::Case, known: &[&str]) -> Option<Found> {
    if let Some(o) = only() {
        if o != property {
            return None;
        }
    }
    let mut o = Obs::default();
    let r = std::panic::catch_unwind(std::panic::AssertUnwindSafe(|| chk.test(case, &mut o)));
    let f = match r {
        Ok(Ok(())) => return None,
        Ok(Err(f)) => f,
        Err(_) => Fail { sig: "panic".into(), msg: format!("unexpected panic: {}", take_panic()) },
    };
    if o.discarded.is_some() || known.contains(&f.sig.as_str()) {
        return None;
    }
    Some(Found { property, check: chk.name(), case: serde_json::to_value(case).unwrap_or(serde_json::Value::Null), fail: f })
}

/// C05 / C07 / C15 on one decoded (p, stream).
pub fn quantile(data: &[u8], known: &[&str]) -> Option<Found> {
    let mut u = Unstructured::new(data);
    let p = p_value(&mut u)?;
    let mode = u.arbitrary::<u8>().ok()?;
    let mut xs = Vec::new();
    while xs.len() < 2048 {
        match value(&mut u, mode) {
            Some(v) => xs.push(v),
            None => break,
        }
        if u.is_empty() {
            break;
        }
    }
    let case = c05::QStream { p, xs };
    if let Some(f) = run("C15", &c15::Book, &case, known) {
        return Some(f);
    }
    if case.xs.len() >= 1 && case.xs.len() <= 4 {
        if let Some(f) = run("C07", &c07::Small, &case, known) {
            return Some(f);
        }
    }
    // the differential oracle needs moderate magnitudes (its tolerance is relative to the data range)
    if case.xs.iter().all(|x| x.abs() <= 1e100) {
        if let Some(f) = run("C05", &c05::P2Diff, &case, known) {
            return Some(f);
        }
    }
    None
}

fn lattice_value(b: u8) -> f64 {
    c12::LATTICE9[(b % 9) as usize]
}

/// C06 / C12 / C13 on one decoded histogram scenario.
pub fn histogram(data: &[u8], known: &[&str]) -> Option<Found> {
    let mut u = Unstructured::new(data);
    let which = u.arbitrary::<u8>().ok()?;
    let sel = u.arbitrary::<u8>().ok()?;
    let imp = crate::hist::IMPLS[(sel as usize >> 4) % crate::hist::IMPLS.len()].to_string();
    let len = [1usize, 2, 3, 4, 10][(sel % 5) as usize];
    match which % 3 {
        0 => {
            // construction: arbitrary list over the lattice (plus a few arbitrary floats)
            let n = (u.arbitrary::<u8>().ok()? as usize) % (len + 4);
            let mut list = Vec::new();
            for _ in 0..n {
                let b = u.arbitrary::<u8>().ok()?;
                list.push(if b < 200 { lattice_value(b) } else { value(&mut u, 3)? });
            }
            run("C12", &c12::FromRanges, &c12::EdgeList { imp, len, list }, known)
        }
        1 => {
            // lookup: sorted edges from increments, samples around them
            let mut edges = Vec::new();
            let mut cur = (u.arbitrary::<i8>().ok()? as f64) * 0.5;
            for _ in 0..=len {
                let step = u.arbitrary::<u8>().ok()?;
                if step % 4 != 0 {
                    cur += (step % 8) as f64 * 0.25;
                }
                edges.push(cur);
            }
            let infs = u.arbitrary::<u8>().ok()?;
            if infs & 1 == 1 {
                edges[0] = f64::NEG_INFINITY;
            }
            if infs & 2 == 2 {
                edges[len] = f64::INFINITY;
            }
            let mut samples = Vec::new();
            while samples.len() < 64 && !u.is_empty() {
                let k = u.arbitrary::<u8>().ok()?;
                let e = edges[(k as usize >> 3) % edges.len()];
                samples.push(match k % 8 {
                    0 => e,
                    1 => crate::hist::next_up(e),
                    2 => crate::hist::next_down(e),
                    3 => f64::NAN,
                    4 => f64::INFINITY,
                    5 => f64::NEG_INFINITY,
                    6 => -0.0,
                    _ => value(&mut u, 2)?,
                });
            }
            run("C06", &c06::BinLookup, &c06::Lookup { imp, len, const_width: None, edges, resets: if infs & 4 == 4 { vec![samples.len() / 2] } else { vec![] }, samples }, known)
        }
        _ => {
            let mut ea = Vec::new();
            let mut cur = (u.arbitrary::<i8>().ok()? as f64) * 0.5;
            for _ in 0..=len {
                let step = u.arbitrary::<u8>().ok()?;
                if step % 4 != 0 {
                    cur += (step % 8) as f64 * 0.25;
                }
                ea.push(cur);
            }
            let mut eb = ea.clone();
            let m = u.arbitrary::<u8>().ok()?;
            match m % 4 {
                0 => {}
                1 => {
                    for v in eb.iter_mut() {
                        if *v == 0.0 {
                            *v = -*v;
                        }
                    }
                }
                _ => {
                    let p = (m as usize >> 2) % eb.len();
                    let c = crate::hist::next_up(eb[p]);
                    if p + 1 >= eb.len() || c <= eb[p + 1] {
                        eb[p] = c;
                    }
                }
            }
            let mut ops = Vec::new();
            while ops.len() < 48 && !u.is_empty() {
                let b = u.arbitrary::<u8>().ok()?;
                let (h, j) = ((b as usize >> 3) % 4, (b as usize >> 5) % 4);
                ops.push(match b % 8 {
                    0 | 1 | 2 => {
                        let k = u.arbitrary::<u8>().ok()?;
                        let e = ea[(k as usize >> 2) % ea.len()];
                        let x = match k % 4 {
                            0 => e,
                            1 => crate::hist::next_down(e),
                            2 => e + 0.125,
                            _ => f64::NAN,
                        };
                        c13::Op::Add { h, x: fstr::enc(x) }
                    }
                    3 => c13::Op::Merge { dst: h, src: j },
                    4 => c13::Op::AddAssign { dst: h, src: j },
                    5 => c13::Op::Mul { h, k: [0u64, 1, 2, 3, 5, 1 << 53][(u.arbitrary::<u8>().ok()? % 6) as usize] },
                    6 => c13::Op::Reset { h },
                    _ => c13::Op::Clone { dst: h % 3, src: j % 3 },
                });
            }
            run("C13", &c13::Algebra, &c13::History { imp, len, edges_a: ea, edges_b: eb, ops }, known)
        }
    }
}

const TYPES: [&str; 16] = ["Mean", "Variance", "Skewness", "Kurtosis", "Moments4", "M6", "Min", "Max", "WeightedMean", "WeightedMeanWithError", "Covariance", "Histogram<3>", "Histogram<10>", "Quantile(0.5)", "Quantile(0.9)", "M10"];

/// C11 / C14 / C18 / C20 on one decoded operation history.
pub fn history(data: &[u8], known: &[&str]) -> Option<Found> {
    let mut u = Unstructured::new(data);
    let which = u.arbitrary::<u8>().ok()?;
    let ty = TYPES[(u.arbitrary::<u8>().ok()? % 16) as usize];
    let kind = crate::est::kind_of(ty);
    let mode = u.arbitrary::<u8>().ok()?;
    let second = |u: &mut Unstructured| -> Option<f64> {
        Some(match kind {
            crate::est::Kind::Weighted => [0.0, 1.0, 0.5, 2.0, 1e-6, 1e6, 3.0, 0.0][(u.arbitrary::<u8>().ok()? % 8) as usize],
            crate::est::Kind::Xy => value(u, mode)?,
            _ => 0.0,
        })
    };
    let first = |u: &mut Unstructured| -> Option<f64> {
        let v = value(u, mode)?;
        // the C01 value domain for everything except Min/Max
        Some(if v != 0.0 && (v.abs() < 1e-30 || v.abs() > 1e30) { 1.0 } else { v })
    };
    match which % 4 {
        0 => {
            if !crate::est::MERGE_TYPES.contains(&ty) {
                return None;
            }
            let mut ops = Vec::new();
            while ops.len() < 64 && !u.is_empty() {
                let b = u.arbitrary::<u8>().ok()?;
                let (i, j) = ((b as usize >> 2) % 3, (b as usize >> 4) % 3);
                ops.push(match b % 4 {
                    0 | 1 => c11::Op11::Add { i, x: first(&mut u)?, y: second(&mut u)? },
                    2 => {
                        if b & 0xc0 == 0xc0 {
                            c11::Op11::SelfMerge { i, times: 54 }
                        } else {
                            c11::Op11::Merge { i, j }
                        }
                    }
                    _ => {
                        if b & 0x80 != 0 {
                            c11::Op11::New { i }
                        } else {
                            c11::Op11::Clone { i, j }
                        }
                    }
                });
            }
            run("C11", &c11::Identity, &c11::H11 { ty: ty.to_string(), ops }, known)
        }
        1 => {
            let mut ops = Vec::new();
            while ops.len() < 64 && !u.is_empty() {
                let b = u.arbitrary::<u8>().ok()?;
                if b % 16 == 9 {
                    ops.push(c18::SOp::SelfMerge { times: if b & 0x80 != 0 { 55 } else { 2 } });
                } else if b % 8 == 0 {
                    let k = (b as usize >> 3) % 5;
                    let mut vals = Vec::new();
                    for _ in 0..k {
                        vals.push((first(&mut u)?, second(&mut u)?));
                    }
                    ops.push(c18::SOp::Merge { vals });
                } else {
                    ops.push(c18::SOp::Add { x: first(&mut u)?, y: second(&mut u)? });
                }
            }
            let cp = if ops.is_empty() { 0 } else { (mode as usize) % (ops.len() + 1) };
            run("C18", &c18::RoundTrip, &c18::S18 { ty: ty.to_string(), ops, checkpoint: cp }, known)
        }
        2 => {
            if !crate::est::INGEST_TYPES.contains(&ty) {
                return None;
            }
            let paths: Vec<u8> = (0..6).map(|_| u.arbitrary::<u8>().unwrap_or(4) % 9).collect();
            let ncuts = (u.arbitrary::<u8>().ok()? % 5) as usize;
            let cut_bytes: Vec<u8> = (0..ncuts).map(|_| u.arbitrary::<u8>().unwrap_or(0)).collect();
            let mut vals = Vec::new();
            while vals.len() < 300 && !u.is_empty() {
                vals.push((first(&mut u)?, second(&mut u)?));
            }
            let mut cuts: Vec<usize> = cut_bytes.iter().map(|b| (*b as usize * (vals.len() + 1)) >> 8).collect();
            cuts.sort();
            run("C20", &c20::Paths, &c20::Ingest { ty: ty.to_string(), vals, cuts, paths }, known)
        }
        _ => {
            let path = mode % 6;
            let ncuts = (u.arbitrary::<u8>().ok()? % 3) as usize;
            let cut_bytes: Vec<u8> = (0..ncuts).map(|_| u.arbitrary::<u8>().unwrap_or(0)).collect();
            let mut xs = Vec::new();
            while xs.len() < 64 && !u.is_empty() {
                let b = u.arbitrary::<u8>().ok()?;
                xs.push(if b < 64 { c14::ALPHABET[(b % 7) as usize] } else { f64::from_bits(u.arbitrary::<u64>().ok()?) });
            }
            let mut cuts: Vec<usize> = cut_bytes.iter().map(|b| (*b as usize * (xs.len() + 1)) >> 8).collect();
            cuts.sort();
            let merges = vec![0; cuts.len()];
            run("C14", &c14::Extremes, &c14::MM { xs, cuts, merges, path }, known)
        }
    }
}

/// A compact "value program": a few bytes describe up to `maxn` observations (literals,
/// repeated patterns, ramps, pseudo-random blocks) on top of an offset and a scale, so that
/// a 600-byte input reaches lengths beyond 2^16 and data with offsets of 1e11 spreads.
fn program(u: &mut Unstructured, maxn: usize) -> Option<Vec<f64>> {
    let h = u.arbitrary::<u8>().ok()?;
    let offset = [0.0, 0.0, 1.0, 1e3, 1e6, 1e9, -1e6, 1e11][(h % 8) as usize];
    let scale = 10f64.powi([0, 0, -10, 10, -25, 15, 3, -3][((h >> 3) % 8) as usize]);
    let mut d: Vec<f64> = Vec::new();
    while !u.is_empty() && d.len() < maxn {
        let op = u.arbitrary::<u8>().ok()?;
        match op % 8 {
            0 | 1 | 2 => d.push(u.arbitrary::<i8>().ok()? as f64 * 0.25),
            3 => d.push(VALUE_TABLE[((op >> 3) % 16) as usize]),
            4 => {
                // repeat the last m values k times
                let m = (1 + ((op >> 3) % 4) as usize).min(d.len());
                let k = (u.arbitrary::<u16>().ok()? % 8192) as usize;
                if m == 0 {
                    continue;
                }
                let pat: Vec<f64> = d[d.len() - m..].to_vec();
                for i in 0..k * m {
                    if d.len() >= maxn {
                        break;
                    }
                    d.push(pat[i % m]);
                }
            }
            5 => {
                let cnt = (u.arbitrary::<u16>().ok()? % 4096) as usize;
                let step = u.arbitrary::<i8>().ok()? as f64 * 0.125;
                let last = d.last().copied().unwrap_or(0.0);
                for i in 1..=cnt {
                    if d.len() >= maxn {
                        break;
                    }
                    d.push(last + step * i as f64);
                }
            }
            6 => {
                let x = f64::from_bits(u.arbitrary::<u64>().ok()?);
                d.push(if x.is_finite() && x.abs() <= 1e6 && (x == 0.0 || x.abs() >= 1e-6) { x } else { VALUE_TABLE[(x.to_bits() % 16) as usize] });
            }
            _ => {
                let cnt = (u.arbitrary::<u16>().ok()? % 16384) as usize;
                let mut r = Sm(u.arbitrary::<u8>().ok()? as u64 + 1);
                let heavy = op & 0x80 != 0;
                for _ in 0..cnt {
                    if d.len() >= maxn {
                        break;
                    }
                    let z = r.f() * 2.0 - 1.0;
                    d.push(if heavy { z * z * z * 8.0 } else { z });
                }
            }
        }
    }
    Some(d.into_iter().map(|v| scale * (offset + v)).collect())
}

const WEIGHT_TABLE: [f64; 8] = [1.0, 0.0, 0.5, 2.0, 1e-6, 1e6, 3.0, 0.25];

/// The numeric family (C01-C04, C08-C10, C16, C17) on one decoded value program
/// (+ chunking, merge order, ingestion path, second coordinate).
pub fn moments(data: &[u8], known: &[&str]) -> Option<Found> {
    let mut u = Unstructured::new(data);
    let which = u.arbitrary::<u8>().ok()?;
    let fam = match only() {
        Some("C01") => 0,
        Some("C02") => 1,
        Some("C03") => 2,
        Some("C04") => 3,
        Some("C08") => 4,
        Some("C09") => 5,
        Some("C10") => 6,
        Some("C16") => 7,
        Some("C17") => 8,
        Some(_) => return None,
        None => which % 9,
    };
    let sub = u.arbitrary::<u8>().ok()?;
    let ncuts = (u.arbitrary::<u8>().ok()? % 7) as usize;
    let cut_frac: Vec<u16> = (0..ncuts).map(|_| u.arbitrary::<u16>().unwrap_or(0)).collect();
    let merges: Vec<usize> = (0..ncuts).map(|_| (u.arbitrary::<u8>().unwrap_or(0) % 8) as usize).collect();
    let second = u.arbitrary::<u8>().ok()?;
    // one input in 16 may grow beyond 2^16 observations (merge/len arithmetic on large counts); the rest stay
    // short so that the campaign keeps hundreds of executions per second under ASan
    let xs = program(&mut u, if which >> 4 == 15 { 70000 } else { 1200 })?;
    let n = xs.len();
    let mut cuts: Vec<usize> = if sub & 0x40 != 0 && n <= 3000 { (1..n).collect() } else { cut_frac.iter().map(|f| (*f as usize * (n + 1)) >> 16).collect() };
    cuts.sort();
    let ys = |xs: &[f64]| -> Vec<f64> {
        let mut r = Sm(second as u64 * 77 + 5);
        xs.iter().enumerate().map(|(i, &x)| match second % 6 {
            0 => x,
            1 => -x,
            2 => r.f() * 2.0 - 1.0,
            3 => 0.5 * x + (r.f() - 0.5) * 1e-3 * x.abs().max(1e-20),
            4 => xs[xs.len() - 1 - i],
            _ => (i % 5) as f64 * 1e4 + 1e9,
        }).collect()
    };
    let ws = |n: usize| -> Vec<f64> {
        let (a, b) = ((second >> 3) as usize | 1, (second & 7) as usize);
        (0..n).map(|i| if second & 0x80 != 0 && i == 0 { 0.0 } else { WEIGHT_TABLE[(i * a + b) % 8] }).collect()
    };
    match fam {
        0 => {
            let c = Xs { xs };
            if let Some(f) = run("C01", &c01::var_check(), &c, known) {
                return Some(f);
            }
            if let Some(f) = run("C01", &c01::mean_check(), &c, known) {
                return Some(f);
            }
            run("C01", &c01::ExtendPath, &c02::Chunked { xs: c.xs, cuts, merges: vec![] }, known)
        }
        1 => run("C02", &c02::MergeAll, &c02::Chunked { xs, cuts, merges }, known),
        2 => {
            let c = Xs { xs };
            if let Some(f) = run("C03", &c03::skew_check(), &c, known) {
                return Some(f);
            }
            if let Some(f) = run("C03", &c03::kurt_check(), &c, known) {
                return Some(f);
            }
            if n <= 64 {
                return run("C03", &c03::EqualMeanShards, &c, known);
            }
            None
        }
        3 => {
            let mode = (sub >> 4) % 3;
            match sub % 8 {
                6 => run("C04", &c04::s7(), &Xs { xs: c04::rescale_to_edge(&xs, 7, mode) }, known),
                7 => run("C04", &c04::s9(), &Xs { xs: c04::rescale_to_edge(&xs, 9, mode) }, known),
                0 => run("C04", &c04::s4(), &Xs { xs: c04::rescale_to_edge(&xs, 4, mode) }, known),
                1 => run("C04", &c04::s5(), &Xs { xs: c04::rescale_to_edge(&xs, 5, mode) }, known),
                2 => run("C04", &c04::s6(), &Xs { xs: c04::rescale_to_edge(&xs, 6, mode) }, known),
                3 => run("C04", &c04::s8(), &Xs { xs: c04::rescale_to_edge(&xs, 8, mode) }, known),
                4 => run("C04", &c04::s10(), &Xs { xs: c04::rescale_to_edge(&xs, 10, mode) }, known),
                _ => run("C04", &c04::Cross, &Xs { xs: c04::rescale_for_order(&xs, 6) }, known),
            }
        }
        4 => {
            let w = ws(n);
            let pairs = xs.into_iter().zip(w).collect();
            run("C08", &c08::Weighted, &c08::WCase { pairs, cuts, merges, path: sub % c08::PATHS }, known)
        }
        5 => {
            let y = ys(&xs);
            let pairs = xs.into_iter().zip(y).collect();
            run("C09", &c09::Cov, &c08::WCase { pairs, cuts, merges, path: sub % c08::PATHS }, known)
        }
        6 => run("C10", &c10::SampleStats, &Xs { xs }, known),
        7 => {
            // C16: the first value of the program, n in 0..=4 or a constant stream; every third case non-constant
            let ty = c16::TYPES[(sub % 13) as usize];
            let v = xs.first().copied().unwrap_or(0.0);
            let cnt = match second % 8 {
                0..=4 => (second % 8) as usize,
                5 => n.min(3000),
                6 => 5 + (n % 50),
                _ => 1 + n % 5,
            };
            let mut x16: Vec<f64> = if sub & 0x40 != 0 && cnt >= 2 { xs.iter().copied().take(cnt.min(6)).collect() } else { vec![v; cnt] };
            if x16.iter().any(|x| *x != 0.0 && (x.abs() < 1e-30 || x.abs() > 1e30)) {
                x16 = vec![1.0; x16.len()];
            }
            let m = x16.len();
            let y16: Vec<f64> = match ty {
                "Covariance" => (0..m).map(|i| if second & 0x40 != 0 { 7.0 } else { 7.0 + i as f64 }).collect(),
                _ => ws(m).into_iter().map(|w| if second & 0x20 != 0 { 0.0 } else { w }).collect(),
            };
            run("C16", &c16::Sentinels, &c16::S16 { ty: ty.to_string(), xs: x16, ys: y16, via_extend: sub & 0x80 != 0 }, known)
        }
        _ => {
            // C17: no restriction on kappa; magnitudes up to 1e140 by an extra scale
            let f = [1.0, 1e100, 1e-200, 1e125][(sub % 4) as usize];
            let xs: Vec<f64> = xs.into_iter().take(30000).map(|x| x * f).collect();
            let y = ys(&xs);
            let w = ws(xs.len());
            run("C17", &c17::Signs, &c17::Ill { xs, ys: y, ws: w, cuts, merges, path: (sub >> 2) % c08::PATHS }, known)
        }
    }
}

/// Signatures of the known findings a campaign must tolerate in-target (otherwise it
/// would rediscover one crash forever): the `known:` lines of $VERIF_ROOT/KNOWN_FINDINGS.txt.
pub fn known_sigs() -> &'static [&'static str] {
    static K: std::sync::OnceLock<Vec<&'static str>> = std::sync::OnceLock::new();
    K.get_or_init(|| {
        let root = std::env::var("VERIF_ROOT").unwrap_or_else(|_| "/verif".into());
        let mut v: Vec<&'static str> = Vec::new();
        if let Ok(s) = std::fs::read_to_string(std::path::Path::new(&root).join("KNOWN_FINDINGS.txt")) {
            for line in s.lines() {
                if let Some(rest) = line.trim().strip_prefix("known:") {
                    for tok in rest.split_whitespace() {
                        if let Some(sig) = tok.strip_prefix("signature=") {
                            v.push(Box::leak(sig.to_string().into_boxed_str()));
                        }
                    }
                }
            }
        }
        v
    })
}

pub fn run_target(target: &str, data: &[u8], known: &[&str]) -> Option<Found> {
    match target {
        "quantile" => quantile(data, known),
        "histogram" => histogram(data, known),
        "history" => history(data, known),
        "moments" => moments(data, known),
        _ => None,
    }
}
