#!/bin/bash
# Specificity self-test on PRIVATE copies (scratch worktree + harness copy under /tmp/pb), so that
# /repo stays untouched: every benign/<glob>.patch x the quick tier of the checks in IDS (default:
# all 20), expecting exit 0 everywhere. The baseline suite is not re-run here (benign_selftest.sh does).
#   IDS="C08 C13" tools/scratch_benign.sh 'agent-*'
#   tools/scratch_benign.sh --cleanup
set -u
ROOT="$(cd "$(dirname "$0")/.." && pwd)"
X=/tmp/pb; export CARGO_NET_OFFLINE=true
if [ "${1:-}" = "--cleanup" ]; then git -C /repo worktree remove --force "$X/repo" 2>/dev/null; rm -rf "$X"; git -C /repo worktree prune; exit 0; fi
PAT="${1:-*}"; IDS="${IDS:-$(seq -f 'C%02g' 1 20)}"
mkdir -p "$X/root"
[ -d "$X/repo" ] || git -C /repo worktree add -q --detach "$X/repo" HEAD
git -C "$X/repo" checkout -q --detach "$(git -C /repo rev-parse HEAD)"; git -C "$X/repo" checkout -q -- .
mkdir -p "$X/harness"; rsync -a --exclude target --exclude target-nightly --exclude target-plain --exclude 'fuzz/target' --exclude 'fuzz/corpus-run' --exclude 'fuzz/artifacts' "$ROOT/harness/" "$X/harness/"
sed -i "s#path = \"/repo\"#path = \"$X/repo\"#" "$X/harness/Cargo.toml"
cp "$ROOT/KNOWN_FINDINGS.txt" "$X/root/"
bad=0
for p in "$ROOT"/benign/$PAT.patch; do
  [ -e "$p" ] || continue
  name="$(basename "$p" .patch)"
  git -C "$X/repo" checkout -q -- .
  git -C "$X/repo" apply "$p" 2>/dev/null || { echo "$name: patch does not apply"; bad=$((bad+1)); continue; }
  (cd "$X/harness" && cargo build --release --bin check >"$X/build.log" 2>&1) || { echo "$name: BUILD-FAIL"; bad=$((bad+1)); continue; }
  NB=""
  case " $IDS " in *" C06 "*|*" C12 "*|*" C13 "*) (cd "$X/harness" && cargo +nightly build --release --bin check --features nightly --target-dir "$X/harness/target-nightly" >"$X/buildn.log" 2>&1) && NB="$X/harness/target-nightly/release/check" ;; esac
  alarms=""
  for id in $IDS; do
    BIN="$X/harness/target/release/check"
    case "$id" in C06|C12|C13) [ -n "$NB" ] && BIN="$NB" ;; esac
    timeout 3000 "$BIN" "$id" --tier quick --seed "${VERIF_SEED:-0}" --root "$X/root" >"$X/run.log" 2>&1; rc=$?
    [ $rc -ne 0 ] && alarms="$alarms $id(rc=$rc:$(grep -m1 -o 'signature=[^ ]*' "$X/run.log"))"
  done
  if [ -z "$alarms" ]; then echo "$name: silent ($(echo $IDS | wc -w) checks)"; else echo "$name: ALARMS:$alarms"; bad=$((bad+1)); fi
done
git -C "$X/repo" checkout -q -- .
echo "patches with alarms or problems: $bad"
