#!/bin/bash
# Specificity self-test: applies each behaviour-preserving refactoring (benign/*.patch —
# re-associated arithmetic, a linear scan instead of a binary search, commuted updates, ...)
# to /repo, confirms the baseline suite passes, and expects EVERY check's quick tier to stay
# silent (exit 0). An alarm here is a false alarm of the machinery.
set -u
ROOT="$(cd "$(dirname "$0")/.." && pwd)"; PAT="${1:-*}"
restore() { git -C /repo checkout -q -- . ; }
trap restore EXIT
if [ -n "$(git -C /repo status --porcelain --untracked-files=no)" ]; then echo "/repo has uncommitted changes; refusing"; exit 2; fi
bad=0
for p in "$ROOT"/benign/$PAT.patch; do
  [ -e "$p" ] || continue
  name="$(basename "$p" .patch)"
  git -C /repo apply "$p" || { echo "$name: patch does not apply"; bad=$((bad+1)); continue; }
  if (cd /repo && CARGO_NET_OFFLINE=true cargo test --workspace --no-fail-fast --offline >/tmp/benign_tests.log 2>&1); then t=pass; else t=FAIL; fi
  alarms=""
  for id in $(seq -f 'C%02g' 1 20); do
    out="$(cd "$ROOT" && ./check.sh "$id" quick 2>&1)"; rc=$?
    [ $rc -ne 0 ] && alarms="$alarms $id(rc=$rc:$(echo "$out" | grep -m1 signature= | sed 's/.*signature=\([^ ]*\).*/\1/'))"
  done
  restore
  if [ -z "$alarms" ] && [ "$t" = pass ]; then echo "$name: baseline $t, all 20 checks silent"; else echo "$name: baseline $t, ALARMS:$alarms"; bad=$((bad+1)); fi
done
git -C "$ROOT" checkout -q -- evidence 2>/dev/null; git -C "$ROOT" clean -fdq replays 2>/dev/null
exit $bad
