#!/bin/bash
# Sensitivity self-test on PRIVATE copies (a scratch worktree of /repo and a copy of the
# harness under /tmp/ps), so that /repo and /verif/harness stay untouched while other runs
# use them. For every mutant / seeded change matching the glob: apply it to the scratch
# worktree, rebuild the harness copy against it, run the quick check of the change's own
# property (override with CHECK_ID=Cxx) and report its exit code.
#   tools/scratch_selftest.sh '<glob>' [quick|thorough]
#   tools/scratch_selftest.sh --cleanup
set -u
ROOT="$(cd "$(dirname "$0")/.." && pwd)"
X=/tmp/ps; export CARGO_NET_OFFLINE=true
if [ "${1:-}" = "--cleanup" ]; then git -C /repo worktree remove --force "$X/repo" 2>/dev/null; rm -rf "$X"; git -C /repo worktree prune; exit 0; fi
PAT="${1:-*}"; TIER="${2:-quick}"
mkdir -p "$X/root"
[ -d "$X/repo" ] || git -C /repo worktree add -q --detach "$X/repo" HEAD
git -C "$X/repo" checkout -q --detach "$(git -C /repo rev-parse HEAD)"; git -C "$X/repo" checkout -q -- .
rsync -a --delete --exclude target --exclude target-nightly --exclude target-plain --exclude 'fuzz/target' --exclude 'fuzz/corpus-run' --exclude 'fuzz/artifacts' "$ROOT/harness/" "$X/harness-src/"
mkdir -p "$X/harness"; rsync -a --exclude target --exclude target-nightly "$X/harness-src/" "$X/harness/"
sed -i "s#path = \"/repo\"#path = \"$X/repo\"#" "$X/harness/Cargo.toml"
cp "$ROOT/KNOWN_FINDINGS.txt" "$X/root/"
caught=0; missed=0
for p in "$ROOT"/mutants/$PAT.patch "$ROOT"/seeded/$PAT/patch.diff; do
  [ -e "$p" ] || continue
  if [ "$(basename "$p")" = patch.diff ]; then name="$(basename "$(dirname "$p")")"; else name="$(basename "$p" .patch)"; fi
  id="${CHECK_ID:-${name%%-*}}"
  git -C "$X/repo" checkout -q -- .
  git -C "$X/repo" apply "$p" 2>/dev/null || { echo "$name: patch does not apply"; continue; }
  case "$id" in
    C06|C12|C13) (cd "$X/harness" && cargo +nightly build --release --bin check --features nightly --target-dir "$X/harness/target-nightly" >"$X/build.log" 2>&1) || { echo "$name: BUILD-FAIL"; continue; }
                 BIN="$X/harness/target-nightly/release/check" ;;
    *)           (cd "$X/harness" && cargo build --release --bin check >"$X/build.log" 2>&1) || { echo "$name: BUILD-FAIL"; continue; }
                 BIN="$X/harness/target/release/check" ;;
  esac
  timeout 3000 "$BIN" "$id" --tier "$TIER" --seed "${VERIF_SEED:-0}" --root "$X/root" >"$X/run.log" 2>&1; rc=$?
  sig=$(grep -m1 -o 'signature=[^ ]*' "$X/run.log" | head -1)
  if [ $rc -eq 1 ]; then caught=$((caught+1)); echo "$name: $id $TIER rc=1 CAUGHT $sig"; else missed=$((missed+1)); echo "$name: $id $TIER rc=$rc MISSED"; fi
done
git -C "$X/repo" checkout -q -- .
echo "caught=$caught missed=$missed"
