#!/bin/bash
# Independent confirmation of a sub-agent's seeded change:
#   tools/seeded_verify.sh <dir with patch.diff + demo.rs>
# Uses a scratch worktree of /repo under /tmp (created on demand, removed by `tools/seeded_verify.sh --cleanup`).
# Confirms: patch applies; unedited suite passes with the patch; demo fails with the patch; demo passes without.
set -u
WT=/tmp/seedverify_wt
if [ "${1:-}" = "--cleanup" ]; then git -C /repo worktree remove --force "$WT" 2>/dev/null; rm -rf "$WT"; exit 0; fi
D="$(cd "$1" && pwd)"
export CARGO_NET_OFFLINE=true
[ -d "$WT" ] || git -C /repo worktree add -q --detach "$WT" HEAD || exit 2
cd "$WT" && git checkout -q --detach "$(git -C /repo rev-parse HEAD)" && git checkout -q -- . && rm -f tests/demo_seeded.rs
git apply --check "$D/patch.diff" 2>/dev/null || { echo "applies=NO"; exit 1; }
git apply "$D/patch.diff"
if cargo test --workspace --no-fail-fast --offline >/tmp/seedverify_suite.log 2>&1; then suite=pass; else suite=FAIL; fi
feat=ok; cargo build --offline --features serde,rayon >/dev/null 2>&1 || feat=FAIL
cp "$D/demo.rs" tests/demo_seeded.rs
TC=""; FEAT="serde,rayon"
if grep -q 'feature = "nightly"' "$D/demo.rs" || grep -q "histogram_const" "$D/patch.diff"; then TC="+nightly"; FEAT="nightly,serde,rayon"; cargo +nightly build --offline --features nightly >/dev/null 2>&1 || feat=FAIL; fi
if cargo $TC test --offline --features $FEAT --test demo_seeded >/tmp/seedverify_demo1.log 2>&1; then with=passes; else with=fails; fi
git checkout -q -- src
if cargo $TC test --offline --features $FEAT --test demo_seeded >/tmp/seedverify_demo2.log 2>&1; then without=passes; else without=fails; fi
rm -f tests/demo_seeded.rs
echo "applies=yes suite_with_patch=$suite build_serde_rayon=$feat demo_with_patch=$with demo_without_patch=$without"
[ "$suite" = pass ] && [ "$with" = fails ] && [ "$without" = passes ]
