#!/usr/bin/env python3
"""Regenerates /verif/MANIFEST.json from the table below (single source of truth)."""
import json, os
ROOT = os.path.dirname(os.path.dirname(os.path.abspath(__file__)))

# id -> (technique, level text, level note, design ref)
CLAIMED = {
 "C01": ("property-based testing: proptest-generated data sets vs exact rational-arithmetic reference model with forward-error envelopes; hill-climbing search (thorough)",
         "Generated-input exploration: every accessor of Mean/Variance is compared, after feeding one observation at a time, with exact big-integer statistics of the same multiset inside the DESIGN.md 4.1 envelope, over tens of thousands of constructed data sets (13 shapes x 6 orderings x 30 decades of scale x conditioning up to 1e12) plus a textbook-killer family; thorough adds 1e5/1e6-element data and a search that maximises error/envelope. It cannot prove the bound for all inputs.",
         "Trusted: the hand-written exact oracle (self-tested), the envelope constants of DESIGN.md section 4 (first-order analysis + measured margins >= 8x), proptest's generators.",
         "DESIGN.md 5 (C01), 4"),
}
PENDING_REASON = "check not built yet at this commit (work in progress; see DESIGN.md section 5 for the planned generator and oracle)"

props = [json.loads(l) for l in open(os.path.join(ROOT, "properties.jsonl"))]
checks, na = [], []
for p in props:
    pid = p["id"]
    if pid in CLAIMED:
        tech, text, note, ref = CLAIMED[pid]
        checks.append({
            "property_id": pid,
            "quick_cmd": f"./check.sh {pid} quick",
            "thorough_cmd": f"./check.sh {pid} thorough",
            "evidence_file": f"/verif/evidence/{pid}.json",
            "replay_cmd_template": f"./check.sh {pid} --replay {{path}}",
            "engine": "avg-verif harness (proptest TestRunner + bounded-exhaustive enumerators + search)",
            "level_claimed": {"category": "exploration", "text": text, "design_ref": ref},
            "level_note": note,
            "technique": tech,
        })
    else:
        na.append({"property_id": pid, "reason": PENDING_REASON})

manifest = {
    "version": 1,
    "setup_cmd": "./check.sh setup",
    "hooks": {
        "guard": "vks_average_verif",
        "enable": "no hooks were needed: every observation point is public API (Debug/serde expose the P-square markers); checks build /repo unmodified via a cargo path dependency",
        "baseline_off_cmd": "cd /repo && cargo test --workspace --no-fail-fast --offline",
        "source_commits": [],
        "add_only": True,
    },
    "engines": [
        {"name": "avg-verif", "path": "/verif/harness", "serves_properties": sorted(CLAIMED.keys()),
         "kind_free_text": "Rust binary `check`: proptest TestRunner driven from a binary (fixed seeds derived from VERIF_SEED, shrinking, replay files), bounded-exhaustive enumerators, stateful history interpreters, hill-climbing search, exact big-integer oracle"},
    ],
    "checks": checks,
    "not_applicable": na,
    "notes": "All checks: exit 0 = held on everything explored, exit 1 + VIOLATION line = violation, exit 2 = infrastructure problem (never a verdict). Genuine defects found and repaired by fix: commits are listed in KNOWN_FINDINGS.txt as fixed: lines.",
}
if not na:
    manifest["not_applicable"] = []
json.dump(manifest, open(os.path.join(ROOT, "MANIFEST.json"), "w"), indent=1)
print("claimed", len(checks), "not_applicable", len(na))
