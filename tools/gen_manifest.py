#!/usr/bin/env python3
"""Regenerates /verif/MANIFEST.json from the table below (single source of truth)."""
import json, os
ROOT = os.path.dirname(os.path.dirname(os.path.abspath(__file__)))

# id -> (technique, level text, level note, design ref)
TRUST = "Trusted: the hand-written exact oracle (big-integer sums + double-double final operations, self-tested at setup), the envelope constants of DESIGN.md section 4 (first-order analysis + measured margins), proptest's generators and shrinker, rustc/std of this image."
def C(tech, text, note=TRUST, ref=None):
    return (tech, text, note, ref)
CLAIMED = {
 "C01": C("property-based testing (proptest): generated data sets vs exact rational-arithmetic reference model, forward-error envelopes; textbook-killer family; hill-climbing search on error/envelope (thorough)",
   "Exploration: Mean and Variance fed one observation at a time are compared accessor by accessor with exact big-integer statistics of the same multiset inside the DESIGN.md 4.1 envelope, over tens of thousands of constructed data sets (13 shapes x 6 orderings x 30 decades of scale x conditioning up to 1e12, n up to 3e4; thorough 1e5/1e6) plus data on which the textbook formula loses every digit and three fixed data sets of 66 000 to 262 200 observations in the quick tier. Cannot prove the bound for all inputs."),
 "C02": C("property-based testing: bounded-exhaustive enumeration of short sequences x chunkings x merge orders + proptest-generated (data, chunking, merge tree) vs exact reference model",
   "Exploration with an exhaustive sub-space: every sequence of length <= 4 over three 3-value alphabets x every composition into <= 4 possibly-empty contiguous chunks x every merge order, and generated data sets up to 3e4 elements with left-chain, right-chain, balanced and random merge trees, for Mean, Variance, Skewness, Kurtosis, Moments4 and define_moments! orders 5, 6, 7, 8, 9, 10; merged estimator judged against the exact statistics of the whole sequence with the single-pass envelope, len exact."),
 "C03": C("property-based testing: generated skewed / heavy-tailed / two-point / offset data vs exact standardized moments, envelopes; hill-climbing search (thorough)",
   "Exploration: skewness(), kurtosis() and the re-exported mean/variance accessors of Skewness and Kurtosis against exact m3/m2^1.5 and m4/m2^2-3 over generated data weighted towards asymmetric shapes, offsets up to 1e9 spreads."),
 "C04": C("property-based testing: generated data x macro orders {4,5,6,7,8,9,10} x every p <= N vs exact central moments (scale: absolute central moment); cross-agreement metamorphic check; search (thorough)",
   "Exploration: seven define_moments! instantiations, every central and standardized moment up to the order, fixed values bit-for-bit, plus agreement with Mean/Variance/Skewness/Kurtosis within two envelopes."),
 "C05": C("model-based differential testing: bounded-exhaustive small-alphabet streams + proptest-generated streams, every prefix compared with an independent transcription of the P-square algorithm (ambiguity-aware); metamorphic monotone-tracking relation",
   "Exploration with exhaustive sub-spaces: every stream over 2/3/4/5-value alphabets (one of them {-1, -0.0, +0.0, 1}) up to length 13/9/7/6 (thorough 20/13/10/8) x 8 values of p, and random streams of 10 kinds up to 2e3 (2e4) observations: after every observation from the fifth on quantile() and the serialised marker heights/positions equal the reference model's; arithmetic progressions are tracked within 0.10 range in both directions.",
   "Trusted: harness/src/p2ref.rs (transcribed from Jain & Chlamtac 1985, not from the implementation); streams are compared only up to the first decision of the reference that is within 1e-9 relative of flipping. Marker state is read through serde (fields q, n)."),
 "C06": C("property-based testing: bounded-exhaustive edge lattices x boundary samples + proptest histories vs linear-scan model, catch_unwind; both histogram implementations (macro, const-generic on nightly)",
   "Exploration with an exhaustive sub-space: LEN 1..4, every non-decreasing edge vector over an 8-value lattice incl. +-inf and repeated edges, every edge +- 1 ulp, midpoints, +-inf, +-0, NaN; generated LEN 10/100 and with_const_width histograms with add histories; find/add vs the unique half-open bin, counts, totals, no panic.",
   "Trusted: the linear-scan model; std's choice among equal elements in binary_search_by is unspecified — the verdict is for the toolchain in this image. The const-generic implementation is covered only by the nightly build."),
 "C07": C("property-based testing: bounded-exhaustive (all permutations of every multiset of <= 4 values x p grid with every k/n boundary +- 1 ulp) + generated, vs exact-rational sample-quantile oracle",
   "Exploration with an exhaustive sub-space: all 780 sequences of length 1..4 over a 5-symbol alphabet with a duplicate x 130 values of p; n*p evaluated exactly; either adjacent convention accepted within rounding of a whole number."),
 "C08": C("property-based testing: generated (value, weight) streams with placed zero weights x 5 ingestion paths x merge trees vs exact weighted sums; metamorphic deletion of zero-weight pairs",
   "Exploration: WeightedMean and WeightedMeanWithError against exact big-integer weighted sums with the DESIGN.md 4.1 envelopes, zero weights first / last / prefix / isolated / whole chunk; eleven ingestion paths, three of them through iterators whose size_hint lower bound is 0."),
 "C09": C("property-based testing: generated pairs (collinear, independent, mixed; independent placements) x ingestion paths x merge trees vs exact co-moments; swap metamorphic relation",
   "Exploration: every accessor of Covariance against exact statistics of the pairs, |pearson| <= 1 + envelope, swapped roles."),
 "C10": C("property-based testing: generated data from the minimum sample sizes upward, both signs of skew, vs exact textbook estimators; threshold table of sentinels; NaN-aware comparison",
   "Exploration: sample_variance of six estimator families, variance_of_mean/error, adjusted Fisher-Pearson sample_skewness and sample_excess_kurtosis against exact values; NaN/0 sentinels below the minimum sample size; |sample_skewness| <= envelope for n = 2."),
 "C11": C("stateful property-based testing: bounded-exhaustive short histories + proptest histories (new/add/merge/clone over a pool) with bit-pattern snapshots of every accessor",
   "Exploration with an exhaustive sub-space: all histories of <= 3 operations over two estimators and three symbols for 14 types, generated histories up to 30 (80) operations; identity probes in both directions, additivity of len, is_empty consistency."),
 "C12": C("property-based testing: bounded-exhaustive input lists over a 9-value lattice (NaN, +-inf, -0.0) + generated fault injection vs scanning oracle; with_const_width vs exact rational edges; both implementations",
   "Exploration with an exhaustive sub-space: every list of length 0..LEN+3 over 9 values for LEN 1..4 (about 6 million lists per implementation), generated LEN 10/100 lists with one injected fault; the error of the first offending position (missing, NaN or descending) is prescribed for every input; with_const_width over 30 decades against exact rational edge positions (8 ulp)."),
 "C13": C("stateful model-based testing: proptest histories (add, merge, +=, *=, reset, clone over four histograms, equal / numerically equal / different edges) vs Vec<u64> model; NaN-aware view comparison; commutativity/associativity probes; both implementations",
   "Exploration: after every step counts and edges equal the bin-wise model; merge and += agree or both panic leaving operands untouched; iteration and derived views follow their definitions with IEEE semantics, and all six iterators obey the Iterator protocol (nth, skip, step_by, count, last, size_hint agree with next()-by-next() iteration)."),
 "C14": C("property-based testing: bounded-exhaustive sequences over {NaN, +-inf, +-0, finite} x chunkings x merge orders x construction paths + generated, vs fold oracle",
   "Exploration with an exhaustive sub-space: all sequences of length <= 5 over a 7-symbol alphabet x all chunkings into <= 3 parts x both merge orders x 6 construction paths (about 5.5 million cases), both merge directions."),
 "C15": C("property-based testing: the C05 stream generators with per-observation invariants (len, p, range, marker order) + constructor domain incl. arbitrary f64 bit patterns, catch_unwind",
   "Exploration with exhaustive sub-spaces: invariants after every observation over the exhaustive small-alphabet streams and generated streams, and at power-of-two checkpoints of six single streams of 3.7 to 7.2 million observations (thorough x4); Quantile::new panics exactly outside [0,1]."),
 "C16": C("bounded-exhaustive table (type x accessor x n in 0..4 x 60 values, constant streams to 1e4) + generated values, sentinel oracle, catch_unwind with allow-list of the one documented assertion",
   "Exploration with an exhaustive sub-space: the complete finite table of C16 for 13 estimator types, constant add-only streams, zero-total-weight samples; the pair estimators fed through add and, a second time, by reference (collect / extend / extend from a filter)."),
 "C17": C("property-based testing: generated ill-conditioned data (no kappa bound: one-ulp spreads, 1e15 offsets, subnormals, mixed magnitudes) x merge trees with sign/range predicates; random histogram counts",
   "Exploration: variances >= 0, error real, means inside the data range up to 8 n u max|x| + n 2^-1074, effective_len in [1, len], bin variances in [0, total/4] for histograms built through mixed add / *= / merge / += histories; a targeted family (a run of tied values merged with one observation 1-3 ulps away) for rounding coincidences in merge. One genuine, unrepaired finding (K1, subnormal products in WeightedMean::merge) is listed in KNOWN_FINDINGS.txt under its own signature."),
 "C18": C("stateful property-based testing: proptest streams of adds/merges with a checkpoint; serde_json (float_roundtrip) round trip, per-document losslessness precondition, bit-pattern comparison after every continued step",
   "Exploration: 18 estimator types incl. Quantile at three p and histograms LEN 3/10/100; every checkpoint position of short streams, long streams up to 60 (400) operations, and late checkpoints after 70 000 to 400 000 (thorough 3 000 000) observations for every type.",
   "Trusted: serde_json with float_roundtrip as the lossless format (verified per document: re-parsing and re-printing preserves every number token); states with non-finite fields are outside the property."),
 "C19": C("property-based testing over configurations: explicit rayon pools {1,2,3,4,8,16} x 8 splitting bounds x {par_iter, into_par_iter} x repetitions vs exact statistics with schedule-independent envelopes",
   "Exploration: the parts of the schedule the harness owns (pool size, split granularity, repetition, oversubscription) are swept; steal order is sampled, not enumerated. The schedule-independent half of the claim — every contiguous chunking and merge tree — is decided by C02/C11.",
   "Trusted: as C01; rayon's scheduler is not controlled — no verdict depends on timing."),
 "C20": C("property-based testing: generated sequences x segmentations x per-segment ingestion path vs add loop, bit-pattern snapshots; concatenate! structs vs stand-alone estimators",
   "Exploration: 11 types with FromIterator/Extend incl. pair estimators with (f64,f64) and &(f64,f64) items, Estimate::estimate vs headline accessor, four concatenate!-generated structs x four constructors."),
}
FUZZ = {"C05": "quantile", "C07": "quantile", "C15": "quantile", "C06": "histogram", "C12": "histogram", "C13": "histogram",
        "C11": "history", "C14": "history", "C18": "history", "C20": "history",
        "C01": "moments", "C02": "moments", "C03": "moments", "C04": "moments", "C08": "moments", "C09": "moments",
        "C10": "moments", "C16": "moments", "C17": "moments"}
for k in CLAIMED:
    t = CLAIMED[k]
    tech = t[0]
    if k in FUZZ:
        tech += "; thorough tier adds a coverage-guided libFuzzer campaign (target `%s`, same oracle restricted to this property) and a plain-release-build cross-check" % FUZZ[k]
    else:
        tech += "; thorough tier adds a plain-release-build cross-check"
    t = (tech, t[1], t[2], t[3])
    CLAIMED[k] = (t[0], t[1], t[2], t[3] or "DESIGN.md section 5 (%s), section 4" % k)
PENDING_REASON = "check not built yet at this commit (work in progress; see DESIGN.md section 5 for the planned generator and oracle)"

props = [json.loads(l) for l in open(os.path.join(ROOT, "properties.jsonl"))]
checks, na = [], []
for p in props:
    pid = p["id"]
    if pid in CLAIMED:
        tech, text, note, ref = CLAIMED[pid]
        checks.append({
            "property_id": pid,
            "quick_cmd": f"./check.sh {pid} quick",
            "thorough_cmd": f"./check.sh {pid} thorough",
            "evidence_file": f"/verif/evidence/{pid}.json",
            "replay_cmd_template": f"./check.sh {pid} --replay {{path}}",
            "engine": "avg-verif harness (proptest TestRunner + bounded-exhaustive enumerators + search)",
            "level_claimed": {"category": "exploration", "text": text, "design_ref": ref},
            "level_note": note,
            "technique": tech,
        })
    else:
        na.append({"property_id": pid, "reason": PENDING_REASON})

manifest = {
    "version": 1,
    "setup_cmd": "./check.sh setup",
    "hooks": {
        "guard": "vks_average_verif",
        "enable": "no hooks were needed: every observation point is public API (Debug/serde expose the P-square markers); checks build /repo unmodified via a cargo path dependency",
        "baseline_off_cmd": "cd /repo && cargo test --workspace --no-fail-fast --offline",
        "source_commits": [],
        "add_only": True,
    },
    "engines": [
        {"name": "avg-verif", "path": "/verif/harness", "serves_properties": sorted(CLAIMED.keys()),
         "kind_free_text": "Rust lib + binary `check`: proptest TestRunner driven from a binary (fixed seeds derived from VERIF_SEED, shrinking, replay files), bounded-exhaustive enumerators, stateful history interpreters, hill-climbing search, exact big-integer oracle (cross-checked against Python fractions at setup)"},
        {"name": "avg-verif-fuzz", "path": "/verif/harness/fuzz", "serves_properties": sorted(FUZZ.keys()),
         "kind_free_text": "cargo-fuzz / libFuzzer targets quantile, histogram, history, moments (nightly; no sanitizer because average is forbid(unsafe_code); debug assertions and overflow checks on): bytes decoded with arbitrary::Unstructured into the harness's case types, judged by the same oracle functions; thorough tier only; crash artifacts are re-judged and converted into replay files by `check fuzz-replay`"},
    ],
    "checks": checks,
    "not_applicable": na,
    "notes": "All checks: exit 0 = held on everything explored, exit 1 + VIOLATION line = violation, exit 2 = infrastructure problem (never a verdict). Genuine defects found: seven repaired by fix: commits (fixed: lines of KNOWN_FINDINGS.txt), three recorded as known findings K1 (C17), K2 (C15), K3 (C20), each under its own failure signature with a fixed reproducer, so the check prints KNOWN-FINDING and still reports any other violation. Sensitivity: 48 hand-written mutants (mutants/*.patch) and 264 changes written by sub-agents that saw only a property text (seeded/*/patch.diff, ten rounds) all make the quick tier of their property exit 1, except seeded/C10-h (needs n >= 2.64e6: thorough tier) and three whose trigger lies outside the statement of the property they were written for and which the owning property's quick tier reports: seeded/C16-l (a merge defect outside C16's add-only statement: C11), seeded/C12-s (a merge defect outside C12's construction-only statement: C13), seeded/C15-s (needs a serde round trip mid-stream: C18); tools/mutation_selftest.sh and tools/scratch_selftest.sh re-run them. Specificity: 70 behaviour-preserving patches (benign/) x 20 checks raise one alarm, examined in DESIGN.md 8.5b (the patch, written for C15, really breaks C05).",
}
if not na:
    manifest["not_applicable"] = []
json.dump(manifest, open(os.path.join(ROOT, "MANIFEST.json"), "w"), indent=1)
print("claimed", len(checks), "not_applicable", len(na))
