#!/bin/bash
# Generator adequacy measurement: line/region coverage of /repo/src reached by the quick tier of
# all 20 checks (instrumented nightly build with the const-generic histogram enabled).
# Scratch data under /tmp/avgcov (removed at the end unless KEEP=1).
#   tools/coverage.sh            -> prints the llvm-cov report and the uncovered source lines
set -u
ROOT="$(cd "$(dirname "$0")/.." && pwd)"; X=/tmp/avgcov; export CARGO_NET_OFFLINE=true
B="$(dirname "$(rustup which --toolchain nightly rustc)")/../lib/rustlib/x86_64-unknown-linux-gnu/bin"
mkdir -p "$X/prof" "$X/root/evidence" "$X/root/replays"; cp "$ROOT/KNOWN_FINDINGS.txt" "$X/root/"
(cd "$ROOT/harness" && LLVM_PROFILE_FILE="$X/build-%p.profraw" RUSTFLAGS="-C instrument-coverage" cargo +nightly build --release --bin check --features nightly --target-dir "$X/target" >"$X/build.log" 2>&1) || { tail "$X/build.log"; exit 2; }
for id in $(seq -f 'C%02g' 1 20); do
  LLVM_PROFILE_FILE="$X/prof/$id-%p.profraw" timeout 1800 "$X/target/release/check" "$id" --tier quick --seed "${VERIF_SEED:-1}" --root "$X/root" >/dev/null 2>&1 || echo "note: $id exited $?"
done
"$B/llvm-profdata" merge -sparse "$X"/prof/*.profraw -o "$X/all.profdata"
"$B/llvm-cov" report "$X/target/release/check" -instr-profile="$X/all.profdata" --ignore-filename-regex='(registry|rustc|rustup|harness)' 2>/dev/null
echo "--- uncovered lines of /repo/src ---"
"$B/llvm-cov" show "$X/target/release/check" -instr-profile="$X/all.profdata" $(ls /repo/src/*.rs /repo/src/moments/*.rs) 2>/dev/null | grep -E "^(/repo|\s+[0-9]+\|\s+0\|)" | grep -B1 -E "^\s+[0-9]+\|\s+0\|" | grep -v "^--"
[ "${KEEP:-0}" = 1 ] || rm -rf "$X"
