#!/bin/bash
# False-alarm hunt: run every check's quick (or given) tier under many seeds on the
# current tree, each from a fresh process. Any non-zero exit is printed.
#   tools/multi_seed.sh <first seed> <last seed> [tier] [ids...]
ROOT="$(cd "$(dirname "$0")/.." && pwd)"
A="${1:-1}"; B="${2:-10}"; TIER="${3:-quick}"; shift 3 2>/dev/null
IDS="${*:-$(seq -f 'C%02g' 1 20)}"
bad=0
OUT="$(mktemp -d)"
for s in $(seq "$A" "$B"); do
  for id in $IDS; do
    if ! VERIF_SEED=$s "$ROOT/check.sh" "$id" "$TIER" > "$OUT/$id.$s.log" 2>&1; then
      echo "seed=$s $id rc!=0:"; grep -E "VIOLATION|INFRA|signature" "$OUT/$id.$s.log" | head -5; bad=$((bad+1))
    fi
  done
  echo "seed $s done (failures so far: $bad)"
done
git -C "$ROOT" checkout -q -- evidence 2>/dev/null
echo "TOTAL failures: $bad (logs in $OUT)"
exit $bad
