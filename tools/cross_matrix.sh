#!/bin/bash
# Cross-detection matrix: every mutant / seeded change against EVERY property's quick check.
# Works on private copies (a scratch worktree of /repo and a copy of the harness under
# /tmp/xm), so /repo and /verif/harness are not touched and other work can go on.
#   tools/cross_matrix.sh [glob, default '*']  -> writes seeded/MATRIX.tsv
set -u
ROOT="$(cd "$(dirname "$0")/.." && pwd)"; PAT="${1:-*}"
X=/tmp/xm; export CARGO_NET_OFFLINE=true
rm -rf "$X/harness" "$X/root"; mkdir -p "$X/root"
[ -d "$X/repo" ] || git -C /repo worktree add -q --detach "$X/repo" HEAD
git -C "$X/repo" checkout -q --detach "$(git -C /repo rev-parse HEAD)"; git -C "$X/repo" checkout -q -- .
rsync -a --exclude target --exclude target-nightly --exclude target-plain --exclude 'fuzz/target' --exclude 'fuzz/corpus-run' "$ROOT/harness/" "$X/harness/"
sed -i "s#path = \"/repo\"#path = \"$X/repo\"#" "$X/harness/Cargo.toml"
cp "$ROOT/KNOWN_FINDINGS.txt" "$X/root/"
OUT="$ROOT/seeded/MATRIX.new.tsv"
FINAL="${MATRIX_OUT:-$ROOT/seeded/MATRIX.tsv}"   # MATRIX_OUT=<file> keeps an existing matrix and writes a supplement
IDS=$(seq -f 'C%02g' 1 20)
{ printf "change"; for id in $IDS; do printf "\t%s" "$id"; done; printf "\n"; } > "$OUT"
for p in "$ROOT"/mutants/$PAT.patch "$ROOT"/seeded/$PAT/patch.diff; do
  [ -e "$p" ] || continue
  if [ "$(basename "$p")" = patch.diff ]; then name="seeded/$(basename "$(dirname "$p")")"; else name="mutant/$(basename "$p" .patch)"; fi
  git -C "$X/repo" checkout -q -- .
  git -C "$X/repo" apply "$p" 2>/dev/null || { echo "$name: patch does not apply"; continue; }
  (cd "$X/harness" && cargo build --release --bin check >"$X/build.log" 2>&1) || { printf "%s\tBUILD-FAIL\n" "$name" >> "$OUT"; continue; }
  NB=""
  if grep -q "histogram" "$p"; then (cd "$X/harness" && cargo +nightly build --release --bin check --features nightly --target-dir "$X/harness/target-nightly" >"$X/buildn.log" 2>&1) && NB="$X/harness/target-nightly/release/check"; fi
  printf "%s" "$name" >> "$OUT"
  for id in $IDS; do
    BIN="$X/harness/target/release/check"
    case "$id" in C06|C12|C13) [ -n "$NB" ] && BIN="$NB" ;; esac
    timeout 1200 "$BIN" "$id" --tier quick --seed 0 --root "$X/root" >"$X/run.log" 2>&1; rc=$?
    case $rc in 0) c="." ;; 1) c="X" ;; *) c="?" ;; esac
    printf "\t%s" "$c" >> "$OUT"
  done
  printf "\n" >> "$OUT"
  echo "$name done"
done
git -C "$X/repo" checkout -q -- .
mv "$OUT" "$FINAL"; echo "matrix written to $FINAL  (X = check exits 1, . = exits 0, ? = infrastructure)"
