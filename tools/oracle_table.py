#!/usr/bin/env python3
"""Regenerates tools/oracle_table.json: exact statistics of fixed data sets computed with
Python's fractions.Fraction (every float is an exact rational), stored as double-double
(hi, lo) pairs. `check selftest` compares the harness's big-integer oracle against it to
2^-90 relative, so a bug in the oracle is found before it can raise an alarm."""
import json, random, math
from fractions import Fraction as F
random.seed(20260928)
def dd(fr):
    hi = float(fr)
    lo = float(fr - F(hi))
    return [repr(hi), repr(lo)]
def isqrt_frac(fr, bits=240):
    # sqrt of a rational to `bits` bits as a Fraction
    n, d = fr.numerator, fr.denominator
    s = math.isqrt((n << (2*bits)) // d)
    return F(s, 1 << bits)
sets = []
def add(name, xs, ws=None, ys=None):
    xs = [float(x) for x in xs]
    X = [F(x) for x in xs]; n = len(X)
    mu = sum(X) / n
    c = {p: sum((x - mu)**p for x in X) / n for p in range(2, 11)}
    a = {p: sum(abs(x - mu)**p for x in X) / n for p in range(2, 11)}
    rec = {"name": name, "xs": [repr(x) for x in xs], "mean": dd(mu),
           "central": {str(p): dd(c[p]) for p in c}, "abs_central": {str(p): dd(a[p]) for p in a}}
    if c[2] != 0:
        rec["sigma"] = dd(isqrt_frac(c[2]))
    if ws is not None:
        ws = [float(w) for w in ws]; W = [F(w) for w in ws]
        sw = sum(W); sw2 = sum(w*w for w in W)
        rec["ws"] = [repr(w) for w in ws]; rec["sum_w"] = dd(sw); rec["sum_w2"] = dd(sw2)
        if sw > 0:
            rec["wmean"] = dd(sum(w*x for w, x in zip(W, X)) / sw); rec["eff"] = dd(sw*sw/sw2)
    if ys is not None:
        ys = [float(y) for y in ys]; Y = [F(y) for y in ys]; my = sum(Y)/n
        rec["ys"] = [repr(y) for y in ys]
        rec["sxy"] = dd(sum((x-mu)*(y-my) for x, y in zip(X, Y)))
    sets.append(rec)
add("doc", [1, 2, 3, 4, 5, 1])
add("offset", [1e9, 1e9 + 1, 1e9 + 2])
add("decimals", [0.1, 0.2, 0.3], ws=[0.0, 1.0, 1.0], ys=[5.5, -0.25, 1e-3])
add("wide", [1e30, -1e-30, 3.5, 0.0, -2.25e15], ws=[1e-6, 1e6, 0.0, 2.5, 1.0], ys=[1e-30, 1e30, -7.0, 0.5, 0.0])
for k in range(12):
    n = random.choice([2, 3, 7, 19, 64])
    scale = 10.0 ** random.uniform(-28, 28)
    off = random.choice([0.0, 1e3, 1e9, 1e12]) * random.choice([-1, 1])
    xs = [scale * (off + random.gauss(0, 1) ** random.choice([1, 3])) for _ in range(n)]
    ws = [random.choice([0.0, 10.0 ** random.uniform(-6, 6)]) for _ in range(n)]
    ys = [random.gauss(0, 1) * 10.0 ** random.uniform(-20, 20) for _ in range(n)]
    add("rand%d" % k, xs, ws, ys)
json.dump(sets, open(__file__.replace("oracle_table.py", "oracle_table.json"), "w"), indent=0)
print(len(sets), "data sets")
