#!/bin/bash
# Sensitivity self-test: applies each hand-written mutant (mutants/<ID>-*.patch) and each
# sub-agent seeded change (seeded/<ID>-<x>/patch.diff) to
# /repo, confirms it still compiles and passes the 60 baseline tests, runs the
# property's quick check (expects exit 1), and restores /repo. Never leaves /repo
# modified (trap). Usage: tools/mutation_selftest.sh [glob, default '*'] [tier]
#   SKIP_TESTS=1 skips the baseline-suite run (faster while developing).
#   CHECK_ID=C02 runs that property's check instead of the one named by the patch (cross-detection).
set -u
ROOT="$(cd "$(dirname "$0")/.." && pwd)"
PAT="${1:-*}"; TIER="${2:-quick}"
restore() { git -C /repo checkout -q -- . ; }
trap restore EXIT
if [ -n "$(git -C /repo status --porcelain --untracked-files=no)" ]; then echo "/repo has uncommitted changes; refusing"; exit 2; fi
printf "%-44s %-10s %-8s %s\n" mutant tests check verdict
fails=0
for p in "$ROOT"/mutants/$PAT.patch "$ROOT"/seeded/$PAT/patch.diff; do
  [ -e "$p" ] || continue
  if [ "$(basename "$p")" = patch.diff ]; then name="seeded/$(basename "$(dirname "$p")")"; id="$(basename "$(dirname "$p")")"; id="${id%%-*}"; else name="$(basename "$p" .patch)"; id="${name%%-*}"; fi
  [ -n "${CHECK_ID:-}" ] && id="$CHECK_ID"
  if ! git -C /repo apply "$p" 2>/tmp/mutant_apply.err; then printf "%-44s %s\n" "$name" "PATCH DOES NOT APPLY: $(head -1 /tmp/mutant_apply.err)"; fails=$((fails+1)); continue; fi
  t="skipped"
  if [ -z "${SKIP_TESTS:-}" ]; then
    if (cd /repo && CARGO_NET_OFFLINE=true cargo test --workspace --no-fail-fast --offline >/tmp/mutant_tests.log 2>&1); then t="pass"; else t="FAIL"; fi
  fi
  out="$(cd "$ROOT" && VERIF_ROOT_OVERRIDE= ./check.sh "$id" "$TIER" 2>&1)"; rc=$?
  restore
  sig="$(echo "$out" | grep -m1 'signature=' | sed 's/.*signature=\([^ ]*\).*/\1/')"
  if [ $rc -eq 1 ] && [ "$t" != "FAIL" ]; then v="caught ($sig)"; else v="MISSED rc=$rc"; fails=$((fails+1)); fi
  [ "$t" = "FAIL" ] && v="INVALID MUTANT (baseline tests fail)"
  printf "%-44s %-10s %-8s %s\n" "$name" "$t" "rc=$rc" "$v"
done
# restore evidence/replays produced against mutants
git -C "$ROOT" checkout -q -- evidence 2>/dev/null
git -C "$ROOT" clean -fdq replays 2>/dev/null
exit $fails
