#!/bin/bash
# Entry point of every registered command.
#   ./check.sh <ID> quick|thorough        run the check for one property
#   ./check.sh <ID> --replay <file>       re-execute one saved case, strictly
#   ./check.sh setup                      cold build + oracle self-test
# Exit 0: property held on everything explored. Exit 1: a line
# "VIOLATION property=<ID> replay=<path>" was printed. Exit 2: infrastructure
# problem (harness does not build against the current /repo, watchdog) — never a
# verdict about the property.
set -u
ROOT="$(cd "$(dirname "$0")" && pwd)"
export VERIF_ROOT="$ROOT"
export CARGO_NET_OFFLINE=true
H="$ROOT/harness"
LOG="$H/target/build.log"
mkdir -p "$H/target" "$ROOT/evidence" "$ROOT/replays"

build_stable() {
  (cd "$H" && cargo build --release --bin check >"$LOG" 2>&1) || {
    echo "INFRA: harness does not build against the current /repo tree (see $LOG)"; tail -n 30 "$LOG"; exit 2; }
}
build_nightly() {
  (cd "$H" && cargo +nightly build --release --bin check --features nightly --target-dir "$H/target-nightly" >"$LOG.nightly" 2>&1) || {
    echo "INFRA: nightly harness (const-generic histogram) does not build against the current /repo tree (see $LOG.nightly)"; tail -n 30 "$LOG.nightly"; exit 2; }
}

if [ "${1:-}" = "setup" ]; then
  build_stable
  build_nightly
  "$H/target/release/check" selftest || exit 2
  echo "setup ok"
  exit 0
fi

if [ $# -lt 1 ]; then echo "usage: check.sh <ID> quick|thorough | <ID> --replay <file> | setup"; exit 2; fi
ID="$1"; shift
MODE="${1:-quick}"
case "$ID" in
  C06|C12|C13) build_nightly; BIN="$H/target-nightly/release/check" ;;
  *)           build_stable;  BIN="$H/target/release/check" ;;
esac

if [ "$MODE" = "--replay" ]; then
  if [ -z "${2:-}" ] || [ ! -r "$2" ]; then echo "INFRA: replay file missing or unreadable: ${2:-}"; exit 2; fi
  exec "$BIN" "$ID" --replay "$2"
fi
[ -n "${VERIF_TIER:-}" ] && [ "$MODE" = "" ] && MODE="$VERIF_TIER"
WATCHDOG=3000; [ "$MODE" = "thorough" ] && WATCHDOG=14000
timeout "$WATCHDOG" "$BIN" "$ID" --tier "$MODE" --seed "${VERIF_SEED:-0}" --root "$ROOT"
rc=$?
if [ $rc -eq 124 ] || [ $rc -gt 2 ]; then
  echo "INFRA: check $ID ended abnormally (rc=$rc: watchdog, signal or out of memory) — inconclusive, not a violation"
  exit 2
fi
exit $rc
