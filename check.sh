#!/bin/bash
# Entry point of every registered command.
#   ./check.sh <ID> quick|thorough        run the check for one property
#   ./check.sh <ID> --replay <file>       re-execute one saved case, strictly
#   ./check.sh setup                      cold build + oracle self-test
# Exit 0: property held on everything explored. Exit 1: a line
# "VIOLATION property=<ID> replay=<path>" was printed. Exit 2: infrastructure
# problem (harness does not build against the current /repo, watchdog) — never a
# verdict about the property.
set -u
ROOT="$(cd "$(dirname "$0")" && pwd)"
export VERIF_ROOT="$ROOT"
export CARGO_NET_OFFLINE=true
H="$ROOT/harness"
LOG="$H/target/build.log"
mkdir -p "$H/target" "$ROOT/evidence" "$ROOT/replays"

build_stable() {
  (cd "$H" && cargo build --release --bin check >"$LOG" 2>&1) || {
    echo "INFRA: harness does not build against the current /repo tree (see $LOG)"; tail -n 30 "$LOG"; exit 2; }
}
build_nightly() {
  (cd "$H" && cargo +nightly build --release --bin check --features nightly --target-dir "$H/target-nightly" >"$LOG.nightly" 2>&1) || {
    echo "INFRA: nightly harness (const-generic histogram) does not build against the current /repo tree (see $LOG.nightly)"; tail -n 30 "$LOG.nightly"; exit 2; }
}

if [ "${1:-}" = "setup" ]; then
  build_stable
  build_nightly
  "$H/target/release/check" selftest || exit 2
  # thorough-tier extras (failures here only disable the extras, see the INFRA lines of check.sh)
  (cd "$H" && cargo +nightly fuzz build -s none >"$LOG.fuzz" 2>&1) || echo "note: fuzz targets did not build (thorough tier will skip the libFuzzer campaigns)"
  (cd "$H" && cargo build --profile plain --bin check --target-dir "$H/target-plain" >"$LOG.plain" 2>&1) || echo "note: plain release build failed"
  echo "setup ok"
  exit 0
fi

if [ $# -lt 1 ]; then echo "usage: check.sh <ID> quick|thorough | <ID> --replay <file> | setup"; exit 2; fi
ID="$1"; shift
MODE="${1:-quick}"
case "$ID" in
  C06|C12|C13) build_nightly; BIN="$H/target-nightly/release/check" ;;
  *)           build_stable;  BIN="$H/target/release/check" ;;
esac

if [ "$MODE" = "--replay" ]; then
  if [ -z "${2:-}" ] || [ ! -r "$2" ]; then echo "INFRA: replay file missing or unreadable: ${2:-}"; exit 2; fi
  exec "$BIN" "$ID" --replay "$2"
fi
SEED="${VERIF_SEED:-0}"
final=0

if [ "$MODE" = "thorough" ]; then
  # (1) coverage-guided campaign (libFuzzer), oracle restricted to this property. Built without a sanitizer:
  # average is #![forbid(unsafe_code)] and the harness has no unsafe code, so ASan could only slow the search down
  # (3-6x measured); debug assertions and overflow checks stay on.
  case "$ID" in
    C05|C07|C15) FT=quantile; RUNS=1000000 ;;
    C06|C12) FT=histogram; RUNS=3000000 ;;
    C13) FT=histogram; RUNS=1000000 ;;   # its oracle probes six iterators after every step (about 2 000 exec/s)
    C11|C14|C18|C20) FT=history; RUNS=2000000 ;;
    C01|C02|C03|C04) FT=moments; RUNS=30000 ;;
    C08|C09|C10) FT=moments; RUNS=60000 ;;
    C16) FT=moments; RUNS=2000000 ;;
    C17) FT=moments; RUNS=600000 ;;
    *) FT="" ;;
  esac
  if [ -n "$FT" ]; then
    if (cd "$H" && cargo +nightly fuzz build -s none "$FT" >"$LOG.fuzz" 2>&1); then
      CORPUS="$H/fuzz/corpus-run/$ID-$FT"; ART="$H/fuzz/artifacts/$ID-$FT/"
      rm -rf "$CORPUS" "$ART"; mkdir -p "$CORPUS" "$ART"
      FSEED=$(( (SEED % 2147483000) + 1 ))   # libFuzzer: 0 means random
      (cd "$H" && VERIF_FUZZ_ONLY="$ID" timeout 3000 "$H/fuzz/target/x86_64-unknown-linux-gnu/release/$FT" -artifact_prefix="$ART" \
          -runs=$RUNS -seed=$FSEED -max_len=600 -len_control=0 -print_final_stats=1 "$CORPUS" "$H/fuzz/seeds/$FT" >"$LOG.fuzzrun" 2>&1)
      frc=$?
      execs=$(grep -m1 'stat::number_of_executed_units' "$LOG.fuzzrun" | awk '{print $2}')
      cov=$(grep -E 'cov: [0-9]+' "$LOG.fuzzrun" | tail -1 | sed 's/.*cov: \([0-9]*\).*/\1/')
      corp=$(ls "$CORPUS" | wc -l)
      crashes=0
      for a in "$ART"crash-* "$ART"oom-* "$ART"timeout-*; do
        [ -e "$a" ] || continue
        case "$a" in
          *crash-*) if "$BIN" fuzz-replay "$FT" "$a" --root "$ROOT"; then echo "note: fuzz artifact $a does not fail in strict replay (ignored)"; else crashes=$((crashes+1)); final=1; fi ;;
          *) echo "INFRA: libFuzzer reported $(basename "$a") — inconclusive, not a violation" ;;
        esac
      done
      export VERIF_FUZZ_STATS="{\"target\":\"$FT\",\"oracle_restricted_to\":\"$ID\",\"executions\":${execs:-0},\"edge_coverage\":${cov:-0},\"corpus_units\":$corp,\"seed\":$FSEED,\"crashes_confirmed_as_violations\":$crashes,\"exit\":$frc,\"note\":\"libFuzzer campaigns are only approximately reproducible from a seed; the saved input is the reproducible unit\"}"
      echo "fuzz $FT (oracle $ID): executions=${execs:-0} cov=${cov:-0} corpus=$corp confirmed_violations=$crashes"
    else
      echo "INFRA: fuzz target $FT does not build (see $LOG.fuzz) — skipping the coverage-guided campaign"
    fi
  fi
  # (2) the same quick-tier work on a plain release build (no debug assertions / overflow checks)
  case "$ID" in
    C06|C12|C13) : ;;  # nightly-only checks: skipped
    *)
      if (cd "$H" && cargo build --profile plain --bin check --target-dir "$H/target-plain" >"$LOG.plain" 2>&1); then
        timeout 3000 "$H/target-plain/plain/check" "$ID" --tier quick --seed "$SEED" --root "$ROOT" --no-evidence
        prc=$?
        [ $prc -eq 1 ] && final=1
        [ $prc -ne 0 ] && [ $prc -ne 1 ] && echo "INFRA: plain-build cross-check ended with rc=$prc — inconclusive"
      else
        echo "INFRA: plain release build failed (see $LOG.plain) — cross-check skipped"
      fi ;;
  esac
fi

WATCHDOG=3000; [ "$MODE" = "thorough" ] && WATCHDOG=14000
timeout "$WATCHDOG" "$BIN" "$ID" --tier "$MODE" --seed "$SEED" --root "$ROOT"
rc=$?
if [ $rc -eq 124 ] || [ $rc -gt 2 ]; then
  echo "INFRA: check $ID ended abnormally (rc=$rc: watchdog, signal or out of memory) — inconclusive, not a violation"
  [ $final -eq 1 ] && exit 1
  exit 2
fi
[ $final -eq 1 ] && exit 1
exit $rc
